#!/bin/bash
export VERIF_EVIDENCE_DIR=/tmp/verif_scratch_evidence VERIF_REPLAY_DIR=/tmp/verif_scratch_replays
# usage: tools_mutate.sh <PROP> <file-relative-to-repo> <sed-expression>
# applies one sed edit to a scratch copy of the tree and runs the check on it
set -e
PROP=$1; FILE=$2; SED=$3
D=$(mktemp -d /tmp/mut.XXXXXX)
cp -r "${STONE_REPO_SRC:-/repo}/stone" "$D/"
sed -i "$SED" "$D/$FILE"
if diff -q "${STONE_REPO_SRC:-/repo}/$FILE" "$D/$FILE" >/dev/null; then echo "MUTATION DID NOT APPLY"; rm -rf "$D"; exit 9; fi
set +e
STONE_REPO=$D /verif/check $PROP > "$D/out.txt" 2>&1
rc=$?
tail -4 "$D/out.txt" | cut -c1-300
echo "exit=$rc"
rm -rf "$D"
