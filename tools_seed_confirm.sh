#!/bin/bash
export VERIF_EVIDENCE_DIR=/tmp/verif_scratch_evidence VERIF_REPLAY_DIR=/tmp/verif_scratch_replays
# usage: tools_seed_confirm.sh <worktree> <seed-id> <PROP> [<PROP>...]
# Confirms a seeded change (tests pass with it, demo fails with it and passes without),
# stores it under /verif/seeded/<seed-id>/ and runs the given checks against it in /repo.
WT=$1; ID=$2; shift 2
cd "$WT" || exit 9
# the worktree may predate fix: commits of /repo; the patch is what counts
T1=$( /venv/bin/python -m pytest -q -p no:cacheprovider test/ 2>&1 | tail -1 )
echo "tests with change: $T1"
PYTHONPATH=$WT /venv/bin/python SEED/demo.py >/tmp/demo_with.txt 2>&1; D1=$?
git stash -q
PYTHONPATH=$WT /venv/bin/python SEED/demo.py >/tmp/demo_without.txt 2>&1; D0=$?
git stash pop -q
echo "demo with change: exit $D1 ; without: exit $D0"
mkdir -p /verif/seeded/$ID
cp SEED/patch.diff SEED/demo.py /verif/seeded/$ID/
cp SEED/meta.json /verif/seeded/$ID/meta.agent.json 2>/dev/null
RES=""
if git -C /repo apply --check "$WT/SEED/patch.diff" 2>/dev/null; then
  git -C /repo apply "$WT/SEED/patch.diff"
  for P in "$@"; do
    OUT=$(cd /verif && ./check $P 2>&1); RC=$?
    echo "check $P on seeded tree: exit $RC"; echo "$OUT" | grep -E "VIOLATION|CHECKER|UNDECIDED" | head -3
    RES="$RES $P:exit$RC"
  done
  git -C /repo checkout -- .
else
  echo "PATCH DOES NOT APPLY TO /repo"; RES="patch-does-not-apply"
fi
python3 - "$ID" "$T1" "$D1" "$D0" "$RES" <<'PY'
import json, sys, os
sid, t1, d1, d0, res = sys.argv[1:6]
p = '/verif/seeded/%s/meta.json' % sid
agent = {}
try: agent = json.load(open('/verif/seeded/%s/meta.agent.json' % sid))
except Exception: pass
meta = {'seed': sid, 'property': agent.get('property'), 'summary': agent.get('summary'), 'needs': agent.get('needs'),
        'confirmed': {'tests_with_change': t1, 'demo_exit_with_change': int(d1), 'demo_exit_without_change': int(d0)},
        'checks_on_seeded_tree': res.strip(), 'agent_ran': agent.get('ran')}
json.dump(meta, open(p, 'w'), indent=1)
try: os.remove('/verif/seeded/%s/meta.agent.json' % sid)
except OSError: pass
PY
