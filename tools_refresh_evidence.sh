#!/bin/bash
# re-runs every claimed check (quick tier) on /repo itself, rewrites evidence/, validates it
cd /verif
unset VERIF_EVIDENCE_DIR VERIF_REPLAY_DIR STONE_REPO
rc=0
for P in $(python3 -c "import json; print(' '.join(c['property_id'] for c in json.load(open('MANIFEST.json'))['checks']))"); do
  ./check $P --tier quick | tail -2; r=${PIPESTATUS[0]}; [ $r -ne 0 ] && rc=1
done
python3-vt -c "
import json, jsonschema, glob
m=json.load(open('MANIFEST.json')); jsonschema.validate(m, json.load(open('/root/.vp/MANIFEST.schema.json')))
for c in m['checks']:
    e=json.load(open(c['evidence_file'])); jsonschema.validate(e, json.load(open('/root/.vp/EVIDENCE.schema.json')))
    cov=e['coverage']
    assert e['level']!='proof' or cov['obligations']==cov['discharged'], c['property_id']
print('manifest and evidence valid')"
exit $rc
