import sys, time, os
sys.path.insert(0, os.path.dirname(os.path.dirname(os.path.abspath(__file__)))); sys.path.insert(0, os.environ.get('STONE_REPO','/repo'))
import z3
from pyvc import verify, contract as CT, interp as I, vals
import contracts.validators, contracts.ir_types, contracts.runtime_base, contracts.serializers
try:
    import contracts.serializers
except ImportError:
    pass
E = verify.setup_engine()
V = verify.Verifier()
which = sys.argv[2] if len(sys.argv) > 2 else None
orig = V.prove
def explain(m, t, want, d=0, out=None):
    """print the atoms responsible for t evaluating to (not want)"""
    v = z3.is_true(m.eval(t, model_completion=True))
    pad = '  '*d
    if d > 14: print(pad+'...'); return
    if z3.is_not(t): return explain(m, t.arg(0), not want, d, out)
    if z3.is_and(t) or z3.is_or(t):
        isand = z3.is_and(t)
        print(pad + ('AND' if isand else 'OR') + ' = %s (want %s)' % (v, want))
        for ch in t.children():
            cv = z3.is_true(m.eval(ch, model_completion=True))
            if (isand and want and not cv) or ((not isand) and (not want) and cv) or (isand and not want and cv and False):
                explain(m, ch, want, d+1, out)
            elif (not isand) and want and not cv:
                explain(m, ch, want, d+1, out)
            elif isand and (not want) and cv:
                explain(m, ch, want, d+1, out)
        return
    if z3.is_app(t) and t.decl().kind() == z3.Z3_OP_IMPLIES:
        a, b = t.arg(0), t.arg(1)
        print(pad + 'IMPLIES = %s' % v)
        if want:
            explain(m, b, True, d+1, out)
        else:
            av = z3.is_true(m.eval(a, model_completion=True))
            print(pad + '  antecedent = %s' % av)
            if not av:
                explain(m, a, True, d+1, out)
            else:
                explain(m, b, False, d+1, out)
        return
    if z3.is_app(t) and t.decl().kind() == z3.Z3_OP_ITE:
        c = z3.is_true(m.eval(t.arg(0), model_completion=True))
        print(pad + 'ITE cond=%s' % c)
        return explain(m, t.arg(1) if c else t.arg(2), want, d+1, out)
    if z3.is_const(t) and t.decl().name().startswith('q!') and out is not None:
        for (b, q, _) in out.quants:
            if b.eq(t):
                n = t.decl().name()[2:]
                sk = z3.Int('sk!' + n)
                body = z3.substitute_vars(q.body(), sk)
                print(pad + 'QUANT %s %s = %s (want %s); witness %s = %s' % (t, 'forall' if q.is_forall() else 'exists', v, want, sk, m.eval(sk)))
                if q.is_forall() == want:
                    return explain(m, body, want, d+1, out)
                # a universal that should be false (or an existential that should be true):
                # show the body at every registered index of this path
                for (_, k, _s) in out.indices:
                    bk = z3.substitute_vars(q.body(), k)
                    print(pad + '  at index %s = %s: body = %s' % (str(k)[:80], m.eval(k, model_completion=True), m.eval(bk, model_completion=True)))
                    if str(k).startswith('first!'):
                        explain(m, bk, False, d+2, out)
                return
    print(pad + 'ATOM %s  = %s (want %s)' % (str(t)[:400].replace('\n',' '), v, want))
    if z3.is_app(t):
        for ch in t.children():
            print(pad + '     . %s => %s' % (str(ch)[:200].replace('\n',' '), m.eval(ch, model_completion=True)))
def prove(E_, p, name, goal, kind, rep, argsv=None, con=None):
    ob = orig(E_, p, name, goal, kind, rep, argsv, con)
    if ob.status == 'failed' and not getattr(V,'done',False) and (which is None or which in name):
        V.done=True
        E_.saturate(p.solver.assertions() + [goal])
        s = z3.Solver()
        for a in p.solver.assertions(): s.add(a)
        for a in vals.AXIOMS: s.add(a)
        g = z3.simplify(goal)
        s.add(z3.Not(g)); print(name, s.check()); m = s.model()
        explain(m, g, True, 0, p)
    return ob
V.prove = prove
rep = V.verify(E, CT.REGISTRY[sys.argv[1]])
print([(o.name.split('#')[1], o.status) for o in rep.obligations if o.status != 'discharged'], rep.unsupported)
