"""C10 (defaults): every literal the compile-time check of an IR primitive
type accepts is valid for the runtime validator the python_types backend
constructs for that type.

``rt_*`` relates an IR type P to the runtime validator T that
``generate_validator_constructor`` denotes for it (same kind, the IR type's own
arguments passed as min_value/max_value/...; then the constructor contracts of
stone_validators, proved under C08, give T's fields).  ``emitted(d)`` is what
``_generate_python_value`` denotes for a non-tag literal d: pprint of a python
literal evaluates to an equal value (axiom PP)."""
from pyvc.contract import lemma, Obj, AnyVal, implies
from pyvc import native as N
import spec.runtime as S
import spec.ir as SI
import stone.ir.data_types as ir
import stone.backends.python_rsrc.stone_validators as bv


def same_int_kind(P, T):
    return ((type(P) is ir.Int32 and type(T) is bv.Int32) or (type(P) is ir.UInt32 and type(T) is bv.UInt32)
            or (type(P) is ir.Int64 and type(T) is bv.Int64) or (type(P) is ir.UInt64 and type(T) is bv.UInt64))


def rt_int(P, T):
    return (same_int_kind(P, T)
            and ((P.min_value is None and T.minimum == T.default_minimum)
                 or (P.min_value is not None and T.minimum == P.min_value))
            and ((P.max_value is None and T.maximum == T.default_maximum)
                 or (P.max_value is not None and T.maximum == P.max_value)))


@lemma('C10.default_fits_int', properties=['C10'])
class default_fits_int:
    params = {'P': Obj(ir._BoundedInteger, proper=True), 'T': Obj(bv.Integer, proper=True), 'd': AnyVal()}

    def hypothesis(P, T, d):
        return SI.ir_int_params_ok(P) and S.wf_integer(T) and rt_int(P, T) and SI.grammar_value(d)

    def statement(P, T, d):
        return implies(SI.ir_int_accepts(P, d), S.valid_int(T, d))

    def gen(rng):
        k = rng.randrange(4)
        icls = [ir.Int32, ir.UInt32, ir.Int64, ir.UInt64][k]
        rcls = [bv.Int32, bv.UInt32, bv.Int64, bv.UInt64][k]
        pool = [x for x in [icls.minimum, icls.minimum + 1, 0, 1, 7, icls.maximum - 1, icls.maximum]
                if icls.minimum <= x <= icls.maximum]
        lo, hi = rng.choice([None] + pool), rng.choice([None] + pool)
        P, T = icls(min_value=lo, max_value=hi), rcls(min_value=lo, max_value=hi)
        vals = pool + [icls.minimum - 1, icls.maximum + 1, True, 1.0, None]
        return {'P': N.describe(P), 'T': N.describe(T), 'd': N.describe(rng.choice(vals))}

    def witness(P, T, d):
        return _witness(P, T, d)


def _witness(P, T, d):
    """On the real code: the compiler accepts the literal, the runtime refuses it."""
    try:
        P.check(d)
    except Exception as e:
        return 'compiler refuses: %s' % type(e).__name__
    try:
        T.validate(d)
    except Exception as e:
        return 'VIOLATED: compiler accepts %r, runtime validator raises %s: %s' % (d, type(e).__name__, e)
    return 'runtime accepts'


def same_float_kind(P, T):
    return ((type(P) is ir.Float32 and type(T) is bv.Float32)
            or (type(P) is ir.Float64 and type(T) is bv.Float64))


def rt_float(P, T):
    return (same_float_kind(P, T)
            and ((P.min_value is None and T.minimum == T.default_minimum)
                 or (P.min_value is not None and isinstance(T.minimum, float) and T.minimum == P.min_value))
            and ((P.max_value is None and T.maximum == T.default_maximum)
                 or (P.max_value is not None and isinstance(T.maximum, float) and T.maximum == P.max_value)))


@lemma('C10.default_fits_float', properties=['C10'])
class default_fits_float:
    params = {'P': Obj(ir._BoundedFloat, proper=True), 'T': Obj(bv.Real, proper=True), 'd': AnyVal()}

    def hypothesis(P, T, d):
        return SI.ir_float_params_ok(P) and rt_float(P, T) and S.wf_real(T) and SI.grammar_value(d)

    def statement(P, T, d):
        return implies(SI.ir_float_accepts(P, d), S.valid_real(T, d))

    def gen(rng):
        k = rng.randrange(2)
        icls, rcls = [ir.Float32, ir.Float64][k], [bv.Float32, bv.Float64][k]
        pool = [None, None, -1.5, 0.0, 1.0, 2.5, 1e30, -1e30, 5, -7]
        lo, hi = rng.choice(pool), rng.choice(pool)
        P, T = icls(min_value=lo, max_value=hi), rcls(min_value=lo, max_value=hi)
        vals = [0.0, -0.0, 1.0, 1, 0, True, 2.5, 3.0, -2.0, 1e31, -1e31, 3.5e38, 10 ** 400, None, 6, -8]
        return {'P': N.describe(P), 'T': N.describe(T), 'd': N.describe(rng.choice(vals))}

    def witness(P, T, d):
        return _witness(P, T, d)


def rt_string(P, T):
    return (T.min_length == P.min_length and T.max_length == P.max_length and T.pattern == P.pattern)


@lemma('C10.default_fits_string', properties=['C10'])
class default_fits_string:
    params = {'P': Obj(ir.String), 'T': Obj(bv.String), 'd': AnyVal()}

    def hypothesis(P, T, d):
        return SI.ir_string_params_ok(P) and rt_string(P, T) and S.wf_string(T) and SI.grammar_value(d)

    def statement(P, T, d):
        return implies(SI.ir_string_accepts(P, d), S.valid_string(T, d))

    def gen(rng):
        lo = rng.choice([None, 0, 1, 2])
        hi = rng.choice([None, 1, 2, 3])
        if lo and hi and hi < lo:
            lo, hi = hi, lo
        pat = rng.choice([None, None, 'a', 'a*', '[a-z]+', 'ab|cd', 'a$'])
        P, T = ir.String(lo, hi, pat), bv.String(lo, hi, pat)
        vals = ['', 'a', 'ab', 'abc', 'aaa', 'cd', 'a\n', 'abX', 'cdcd', 1, None]
        return {'P': N.describe(P), 'T': N.describe(T), 'd': N.describe(rng.choice(vals))}

    def witness(P, T, d):
        return _witness(P, T, d)


@lemma('C10.default_fits_boolean', properties=['C10'])
class default_fits_boolean:
    params = {'d': AnyVal()}

    def hypothesis(d):
        return SI.grammar_value(d)

    def statement(d):
        return implies(SI.ir_boolean_accepts(d), S.valid_boolean(d))


@lemma('C10.default_fits_bytes', properties=['C10'])
class default_fits_bytes:
    params = {'T': Obj(bv.Bytes), 'd': AnyVal()}

    def hypothesis(T, d):
        return S.wf_bytes(T) and T.min_length is None and T.max_length is None and SI.grammar_value(d)

    def statement(T, d):
        return implies(SI.ir_bytes_accepts(d), S.valid_bytes(T, d))

    def gen(rng):
        return {'T': N.describe(bv.Bytes()), 'd': N.describe(rng.choice(['abc', '', 1, None]))}

    def witness(T, d):
        return _witness(ir.Bytes(), T, d)


@lemma('C10.default_fits_timestamp', properties=['C10'])
class default_fits_timestamp:
    """A Timestamp default is checked at compile time as a string in the
    declared format; the runtime validator wants a datetime."""
    params = {'d': AnyVal()}

    def hypothesis(d):
        return SI.grammar_value(d)

    def statement(d):
        return implies(isinstance(d, str), S.valid_timestamp(d))

    def gen(rng):
        return {'d': N.describe(rng.choice(['2020', 'x', 1, None]))}

    def witness(d):
        return _witness(ir.Timestamp('%Y'), bv.Timestamp('%Y'), d)
