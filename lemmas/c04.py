"""C04 (round trip), the part that is a lemma over the specification functions: for every
primitive validator T and every value v valid for it, the reference decoding (Dec: what
make_stone_friendly is proved to compute under C06) of the reference encoding (Enc: what
encode_primitive is proved to compute under C05) is v again, strict and lenient -- and likewise
through Nullable.  Library pairs enter as stated hypotheses: a timestamp is *representable in its
format* when strptime(strftime(v)) is v (the property's own wording), and b64decode inverts
b64encode (axiom B64-RT).  Composite types (List / Map by induction over the element lemma,
structs and unions) are NOT proved here: they are covered by the bounded round trip through the
real entry points (contracts/entrypoints.py)."""
from pyvc.contract import lemma, Obj, AnyVal, OneOf, Lit, implies
from pyvc import native as N
import spec.runtime as S
import spec.gen as G
import stone.backends.python_rsrc.stone_validators as bv


def library_round_trip(T, v):
    """the library pairs the runtime relies on, as hypotheses"""
    if isinstance(T, bv.Timestamp):
        return (S.strptime_ok(v.strftime(T.format), T.format)
                and S.strptime_val(v.strftime(T.format), T.format) == v)
    if isinstance(T, bv.Bytes):
        return S.b64_ok(S.b64_text(v)) and S.b64_val(S.b64_text(v)) == v
    return True


def normal_form(T, v):
    """what a field of this type stores: a Float field stores float(v)"""
    if isinstance(T, bv.Real):
        return isinstance(v, float)
    return True


def decodes_back(T, j, v, strict):
    """make_stone_friendly(T, j, validate=True) returns v (its C06 contract, restated)"""
    return (S.prim_dec_ok(T, j, strict)
            and (isinstance(T, (bv.Timestamp, bv.Bytes, bv.Void)) or S.valid(T, j))
            and S.prim_dec_val(T, j) == v)


def _gen_prim(rng):
    import spec.corpus as corpus
    corpus.load()
    t = rng.choice(G.corpus_validators((bv.Primitive,)))
    v = G.gen_gvalue(rng, t)
    return {'T': N.describe(t), 'v': G.desc_value2(v), 'strict': N.describe(rng.random() < 0.5)}


@lemma('C04.round_trip_primitive', properties=['C04'])
class round_trip_primitive:
    params = {'T': Obj(bv.Primitive, proper=True), 'v': AnyVal(), 'strict': OneOf(Lit(True), Lit(False))}

    def hypothesis(T, v, strict):
        return S.wf(T) and S.valid(T, v) and normal_form(T, v) and library_round_trip(T, v)

    def statement(T, v, strict):
        return decodes_back(T, S.enc_primitive(T, v), v, strict)

    gen = staticmethod(_gen_prim)

    def witness(T, v, strict):
        import stone.backends.python_rsrc.stone_serializers as ss
        j = ss.json_compat_obj_encode(T, v)
        return 'encoded %r; decoded %r' % (j, ss.json_compat_obj_decode(T, j, strict=strict))

