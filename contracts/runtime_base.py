"""Contracts for stone_base.py (Attribute descriptor, Union) and for the
Struct / Union validators of stone_validators.py (C08, C04, C06, C13)."""
from pyvc.contract import contract, Ret, Raise, Obj, AnyVal, Lit, OneOf, implies
import spec.runtime as S
import spec.gen as G
import stone.backends.python_rsrc.stone_validators as bv
import stone.backends.python_rsrc.stone_base as bb
import stone.backends.python_rsrc.stone_serializers as SS

MV = 'stone.backends.python_rsrc.stone_validators:'
MB = 'stone.backends.python_rsrc.stone_base:'


# ---------------------------------------------------------------- Struct validator

@contract(MV + 'Struct.validate_type_only', properties=['C08', 'C06', 'C05', 'C04', 'C13'], raises=[bv.ValidationError])
class Struct_validate_type_only:
    params = {'self': Obj(bv.Struct), 'val': AnyVal()}

    def requires(self, val):
        return S.wf(self)

    def expected(self, val):
        if S.struct_type_ok(self, val):
            return Ret(None)
        return Raise(bv.ValidationError)


@contract(MV + 'Struct.validate_fields_only', properties=['C08', 'C06', 'C05', 'C04', 'C13'], raises=[bv.ValidationError])
class Struct_validate_fields_only:
    params = {'self': Obj(bv.Struct), 'val': AnyVal()}

    def requires(self, val):
        return S.wf(self) and S.struct_type_ok(self, val)

    def expected(self, val):
        if S.struct_fields_ok(self, val):
            return Ret(None)
        return Raise(bv.ValidationError)


@contract(MV + 'Struct.validate', properties=['C08', 'C06', 'C05', 'C04', 'C13'], raises=[bv.ValidationError])
class Struct_validate:
    params = {'self': Obj(bv.Struct), 'val': AnyVal()}

    def requires(self, val):
        return S.wf(self)

    def expected(self, val):
        return S.validate_outcome(self, val)


@contract(MV + 'Struct.has_default', properties=['C06'])
class Struct_has_default:
    params = {'self': Obj(bv.Struct)}

    def requires(self):
        return S.wf(self)

    def expected(self):
        return Ret(not self.definition._has_required_fields)


# ---------------------------------------------------------------- Union validator

@contract(MV + 'Union.validate_type_only', properties=['C08', 'C06', 'C05', 'C04', 'C13'], raises=[bv.ValidationError])
class Union_validate_type_only:
    params = {'self': Obj(bv.Union), 'val': AnyVal()}

    def requires(self, val):
        return S.wf(self)

    def expected(self, val):
        if S.union_type_ok(self, val):
            return Ret(None)
        return Raise(bv.ValidationError)


@contract(MV + 'Union.validate', properties=['C08', 'C06', 'C05', 'C04', 'C13'], raises=[bv.ValidationError])
class Union_validate:
    params = {'self': Obj(bv.Union), 'val': AnyVal()}

    def requires(self, val):
        return S.wf(self)

    def expected(self, val):
        return S.validate_outcome(self, val)


# ---------------------------------------------------------------- bb.Attribute (field descriptor)

def _wf_descriptor(a):
    return (S.is_slot_name(a.name) and isinstance(a.nullable, bool) and isinstance(a.user_defined, bool)
            and hasattr(a, 'default') and hasattr(a, 'validator'))


@contract(MB + 'Attribute.__get__', properties=['C08', 'C10', 'C04', 'C05', 'C06', 'C13'], raises=[AttributeError])
class Attribute_get:
    """reading a field: the stored value, None for an unset nullable field,
    the declared default for an unset defaulted field, AttributeError otherwise"""
    params = {'self': Obj(bb.Attribute), 'instance': Obj(bb.Struct, generated=True), 'owner': AnyVal()}

    def requires(self, instance, owner):
        return _wf_descriptor(self)

    def expected(self, instance, owner):
        if not hasattr(instance, self.name):
            return Raise(AttributeError)
        if getattr(instance, self.name) is not S.NOT_SET:
            return Ret(getattr(instance, self.name))
        if self.nullable:
            return Ret(None)
        if self.default is not S.NO_DEFAULT:
            return Ret(self.default)
        return Raise(AttributeError)


@contract(MB + 'public_name', properties=['C08'], trusted=True)
class public_name_c:
    """only used for the text of an error message"""
    params = {'name': AnyVal()}

    def requires(name):
        return isinstance(name, str)

    def ensures(name, result, exc):
        return exc is None and isinstance(result, str)


@contract(MB + 'Attribute.__set__', properties=['C08', 'C04', 'C06', 'C05'], raises=[bv.ValidationError])
class Attribute_set:
    """assigning a field: accepted exactly when the value satisfies the field's
    type (user-defined types: the right class; fields of such values are checked
    when they are serialized); stores the normalised value; None on a nullable
    field unsets it"""
    params = {'self': Obj(bb.Attribute), 'instance': Obj(bb.Struct, generated=True), 'value': AnyVal()}

    def requires(self, instance, value):
        return (_wf_descriptor(self) and isinstance(self.validator, bv.Validator) and S.wf(self.validator)
                and self.nullable == isinstance(self.validator, bv.Nullable)
                and self.user_defined == S.is_user_validator(S.unwrap_nullable(self.validator)))

    def expected(self, instance, value):
        if self.nullable and value is None:
            return Ret(None)
        if S.assignable(self.validator, value):
            return Ret(None)
        return Raise(bv.ValidationError)

    def ensures(self, instance, value, result, exc):
        return exc is not None or (
            S.same(getattr(instance, self.name), S.stored_value(self, value)))


@contract(MB + 'Attribute.__delete__', properties=['C08'])
class Attribute_delete:
    params = {'self': Obj(bb.Attribute), 'instance': Obj(bb.Struct, generated=True)}

    def requires(self, instance):
        return _wf_descriptor(self)

    def expected(self, instance):
        return Ret(None)

    def ensures(self, instance, result, exc):
        return exc is None and getattr(instance, self.name) is S.NOT_SET


# ---------------------------------------------------------------- bb.Union

@contract(MB + 'Union.__init__', properties=['C08', 'C06', 'C04', 'C05'], raises=[AssertionError, bv.ValidationError])
class Union_init:
    """constructing a union member: the tag must be one of the union's tags and
    the value must satisfy the tag's type (Void: None; user types: the right class)"""
    params = {'self': Obj(bb.Union, generated=True, fresh=True), 'tag': AnyVal(), 'value': AnyVal()}

    def requires(self, tag, value):
        return (S.wf_union_def(type(self)) and isinstance(tag, str)
                and (tag not in type(self)._tagmap or S.wf(type(self)._tagmap[tag])))

    def expected(self, tag, value):
        if S.tag_validator(type(self), tag) is None:
            return Raise(AssertionError)
        if isinstance(S.tag_validator(type(self), tag), bv.Void):
            if value is None:
                return Ret(None)
            return Raise(AssertionError)
        if S.union_member_ok(S.tag_validator(type(self), tag), value):
            return Ret(None)
        return Raise(bv.ValidationError)

    def ensures(self, tag, value, result, exc):
        return exc is not None or (self._tag is tag and self._value is value)


@contract(MB + 'Union._is_tag_present', properties=['C06', 'C05', 'C13'])
class Union_is_tag_present:
    params = {'cls': AnyVal(), 'tag': AnyVal(), 'caller_permissions': Obj(SS.CallerPermissionsDefault)}

    def requires(cls, tag, caller_permissions):
        return isinstance(cls, type) and S.wf_union_def(cls) and S.hashable_key(tag)

    def expected(cls, tag, caller_permissions):
        if tag is None:
            return Raise(AssertionError)
        return Ret(tag in cls._tagmap)


@contract(MB + 'Union._get_val_data_type', properties=['C06', 'C05', 'C13'], raises=[AssertionError, KeyError])
class Union_get_val_data_type:
    params = {'cls': AnyVal(), 'tag': AnyVal(), 'caller_permissions': Obj(SS.CallerPermissionsDefault)}

    def requires(cls, tag, caller_permissions):
        return isinstance(cls, type) and S.wf_union_def(cls) and S.hashable_key(tag)

    def expected(cls, tag, caller_permissions):
        if tag is None:
            return Raise(AssertionError)
        if tag in cls._tagmap:
            return Ret(cls._tagmap[tag])
        return Raise(KeyError)

Struct_validate_type_only.gen = staticmethod(G.gvalidate_case((bv.Struct,)))

Struct_validate_fields_only.gen = staticmethod(G.gvalidate_case((bv.Struct,)))

Struct_validate.gen = staticmethod(G.gvalidate_case((bv.Struct,)))

Struct_has_default.gen = staticmethod(G.struct_default_case)

Union_validate_type_only.gen = staticmethod(G.gvalidate_case((bv.Union,)))

Union_validate.gen = staticmethod(G.gvalidate_case((bv.Union,)))

Attribute_get.gen = staticmethod(G.attribute_case('get'))

Attribute_set.gen = staticmethod(G.attribute_case('set'))

Attribute_delete.gen = staticmethod(G.attribute_case('del'))

Union_init.gen = staticmethod(G.union_init_case)

Union_is_tag_present.gen = staticmethod(G.union_tag_case)

Union_get_val_data_type.gen = staticmethod(G.union_tag_case)
