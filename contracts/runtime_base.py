"""Contracts for stone_base.py (Attribute descriptor, Union) and for the
Struct / Union validators of stone_validators.py (C08, C04, C06, C13)."""
from pyvc.contract import contract, Ret, Raise, Obj, AnyVal, Lit, OneOf, implies
import spec.runtime as S
import stone.backends.python_rsrc.stone_validators as bv
import stone.backends.python_rsrc.stone_base as bb

MV = 'stone.backends.python_rsrc.stone_validators:'
MB = 'stone.backends.python_rsrc.stone_base:'


# ---------------------------------------------------------------- Struct validator

@contract(MV + 'Struct.validate_type_only', properties=['C08', 'C06'], raises=[bv.ValidationError])
class Struct_validate_type_only:
    params = {'self': Obj(bv.Struct), 'val': AnyVal()}

    def requires(self, val):
        return S.wf(self)

    def expected(self, val):
        if S.struct_type_ok(self, val):
            return Ret(None)
        return Raise(bv.ValidationError)


@contract(MV + 'Struct.validate_fields_only', properties=['C08', 'C06'], raises=[bv.ValidationError])
class Struct_validate_fields_only:
    params = {'self': Obj(bv.Struct), 'val': AnyVal()}

    def requires(self, val):
        return S.wf(self) and S.struct_type_ok(self, val)

    def expected(self, val):
        if S.struct_fields_ok(self, val):
            return Ret(None)
        return Raise(bv.ValidationError)


@contract(MV + 'Struct.validate', properties=['C08', 'C06'], raises=[bv.ValidationError])
class Struct_validate:
    params = {'self': Obj(bv.Struct), 'val': AnyVal()}

    def requires(self, val):
        return S.wf(self)

    def expected(self, val):
        return S.validate_outcome(self, val)


@contract(MV + 'Struct.has_default', properties=['C06'])
class Struct_has_default:
    params = {'self': Obj(bv.Struct)}

    def requires(self):
        return S.wf(self)

    def expected(self):
        return Ret(not self.definition._has_required_fields)


# ---------------------------------------------------------------- Union validator

@contract(MV + 'Union.validate_type_only', properties=['C08', 'C06'], raises=[bv.ValidationError])
class Union_validate_type_only:
    params = {'self': Obj(bv.Union), 'val': AnyVal()}

    def requires(self, val):
        return S.wf(self)

    def expected(self, val):
        if S.union_type_ok(self, val):
            return Ret(None)
        return Raise(bv.ValidationError)


@contract(MV + 'Union.validate', properties=['C08', 'C06'], raises=[bv.ValidationError])
class Union_validate:
    params = {'self': Obj(bv.Union), 'val': AnyVal()}

    def requires(self, val):
        return S.wf(self)

    def expected(self, val):
        return S.validate_outcome(self, val)


# ---------------------------------------------------------------- bb.Attribute (field descriptor)

def _wf_descriptor(a):
    return (S.is_slot_name(a.name) and isinstance(a.nullable, bool) and isinstance(a.user_defined, bool)
            and hasattr(a, 'default') and hasattr(a, 'validator'))


@contract(MB + 'Attribute.__get__', properties=['C08', 'C10', 'C04'], raises=[AttributeError])
class Attribute_get:
    """reading a field: the stored value, None for an unset nullable field,
    the declared default for an unset defaulted field, AttributeError otherwise"""
    params = {'self': Obj(bb.Attribute), 'instance': Obj(bb.Struct, generated=True), 'owner': AnyVal()}

    def requires(self, instance, owner):
        return _wf_descriptor(self)

    def expected(self, instance, owner):
        if not hasattr(instance, self.name):
            return Raise(AttributeError)
        if getattr(instance, self.name) is not S.NOT_SET:
            return Ret(getattr(instance, self.name))
        if self.nullable:
            return Ret(None)
        if self.default is not S.NO_DEFAULT:
            return Ret(self.default)
        return Raise(AttributeError)


@contract(MB + 'public_name', properties=['C08'], trusted=True)
class public_name_c:
    """only used for the text of an error message"""
    params = {'name': AnyVal()}

    def requires(name):
        return isinstance(name, str)

    def ensures(name, result, exc):
        return exc is None and isinstance(result, str)
