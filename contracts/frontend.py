"""Entry point of the frontend, against the statement of C03 itself (BOUNDED stand-in: the lexer, the
LALR parser and the passes of ir_generator.py are outside the VC generator; what is proved of this property
is the literal-check layer of the IR types, contracts/ir_types.py)."""
from pyvc.contract import contract, AnyVal, Lit
from pyvc import shared as N
import spec.frontend_gen as FG
import stone.frontend.exception as fe
import stone.ir.api as api


@contract('stone.frontend.frontend:specs_to_ir', properties=['C03'], bounded=True,
          samples={'quick': FG.total_samples('quick'), 'thorough': FG.total_samples('thorough')})
class specs_to_ir:
    """C03: "compilation terminates and either returns an API description or raises the spec error type with a
    non-empty message and, when it names a file, one of the input paths.  No other exception type ... ever
    escapes the frontend" """
    params = {'specs': AnyVal()}

    def ensures(specs, result, exc):
        if exc is None:
            return isinstance(result, api.Api)
        e = N.LAST_EXCEPTION[0]
        if not isinstance(e, fe.InvalidSpec):
            return False
        return (isinstance(e.msg, str) and e.msg != '' and isinstance(e.lineno, int)
                and (e.path is None or e.path in [p for p, _ in specs]))

    @staticmethod
    def gen(rng):
        return {'specs': {'k': 'call', 'fn': 'spec.frontend_gen:build_specs', 'args': [FG.gen_specs_systematic(rng)]}}


def escape_site(specs):
    """'<ExceptionType>@<innermost function of stone/>' of the exception that escapes specs_to_ir on these
    inputs ('' when none does): how the listed known findings of C03 are identified (no line numbers)"""
    import contextlib
    import io
    import logging
    import os
    import traceback
    from stone.frontend.frontend import specs_to_ir as real
    logging.disable(logging.CRITICAL)
    try:
        with contextlib.redirect_stdout(io.StringIO()), contextlib.redirect_stderr(io.StringIO()):
            real([tuple(p) for p in specs])
        return ''
    except fe.InvalidSpec:
        return ''
    except Exception as e:
        tb = traceback.extract_tb(e.__traceback__)
        fr = [f for f in tb if (os.sep + 'stone' + os.sep) in f.filename]
        return '%s@%s' % (type(e).__name__, fr[-1].name if fr else '?')
    finally:
        logging.disable(logging.NOTSET)
