"""Contracts for stone/backends/python_rsrc/stone_validators.py (C08)."""
from pyvc.contract import contract, Ret, Raise, Obj, AnyVal, Lit, OneOf, Int, Bool, Str
import spec.runtime as S
import stone.backends.python_rsrc.stone_validators as bv

M = 'stone.backends.python_rsrc.stone_validators:'


@contract(M + 'Boolean.validate', properties=['C08'])
class Boolean_validate:
    params = {'self': Obj(bv.Boolean), 'val': AnyVal()}

    def expected(self, val):
        if S.valid_boolean(val):
            return Ret(val)
        return Raise(bv.ValidationError)


@contract(M + 'Integer.validate', properties=['C08'])
class Integer_validate:
    params = {'self': Obj(bv.Integer, proper=True), 'val': AnyVal()}

    def requires(self, val):
        return S.wf_integer(self)

    def expected(self, val):
        if S.valid_int(self, val):
            return Ret(val)
        return Raise(bv.ValidationError)
