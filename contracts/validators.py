"""Contracts for stone/backends/python_rsrc/stone_validators.py (C08)."""
from pyvc.contract import contract, Ret, Raise, Obj, AnyVal, Lit, OneOf, Int, Bool, Str
import spec.runtime as S
import spec.gen as G
import stone.backends.python_rsrc.stone_validators as bv

M = 'stone.backends.python_rsrc.stone_validators:'


# The abstract method: what a caller that only knows "some validator" may rely
# on.  Every override below is proved against the same statement, specialised
# by the class of ``self``.
@contract(M + 'Validator.validate', properties=[], virtual=True, abstract=True, raises=[bv.ValidationError])
class Validator_validate:
    params = {'self': Obj(bv.Validator), 'val': AnyVal()}

    def requires(self, val):
        return S.wf(self)

    def expected(self, val):
        return S.validate_outcome(self, val)


def _validate_contract(cls, proper=False):
    @contract(M + cls.__name__ + '.validate', properties=['C08'], raises=[bv.ValidationError])
    class _C:
        params = {'self': Obj(cls, proper=proper), 'val': AnyVal()}

        def requires(self, val):
            return S.wf(self)

        def expected(self, val):
            return S.validate_outcome(self, val)
    _C.__name__ = _C.cname = cls.__name__ + '_validate'
    _C.gen = staticmethod(G.validate_case(cls, proper))
    return _C


Boolean_validate = _validate_contract(bv.Boolean)
Integer_validate = _validate_contract(bv.Integer, proper=True)
Real_validate = _validate_contract(bv.Real, proper=True)
String_validate = _validate_contract(bv.String)
Bytes_validate = _validate_contract(bv.Bytes)
Timestamp_validate = _validate_contract(bv.Timestamp)
Void_validate = _validate_contract(bv.Void)
Nullable_validate = _validate_contract(bv.Nullable)
List_validate = _validate_contract(bv.List)
Map_validate = _validate_contract(bv.Map)


# ---------------------------------------------------------------- message helpers
# Only used to build error messages; what callers rely on is that they return
# a string and never raise.

@contract(M + 'get_value_string', properties=['C08'])
class get_value_string_c:
    params = {'v': AnyVal()}

    def ensures(v, result, exc):
        return exc is None and isinstance(result, str)


@contract(M + 'generic_type_name', properties=['C08'])
class generic_type_name_c:
    params = {'v': AnyVal()}

    def ensures(v, result, exc):
        return exc is None and isinstance(result, str)
