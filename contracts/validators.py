"""Contracts for stone/backends/python_rsrc/stone_validators.py (C08)."""
from pyvc.contract import contract, Ret, Raise, Obj, AnyVal, Lit, OneOf, Int, Bool, Str
import spec.runtime as S
import spec.gen as G
import stone.backends.python_rsrc.stone_validators as bv

M = 'stone.backends.python_rsrc.stone_validators:'


# The abstract method: what a caller that only knows "some validator" may rely
# on.  Every override below is proved against the same statement, specialised
# by the class of ``self``.
@contract(M + 'Validator.validate', properties=[], virtual=True, abstract=True, raises=[bv.ValidationError])
class Validator_validate:
    params = {'self': Obj(bv.Validator), 'val': AnyVal()}

    def requires(self, val):
        return S.wf(self)

    def expected(self, val):
        return S.validate_outcome(self, val)


def _validate_contract(cls, proper=False):
    @contract(M + cls.__name__ + '.validate', properties=['C08', 'C05', 'C06', 'C04', 'C13'], raises=[bv.ValidationError])
    class _C:
        params = {'self': Obj(cls, proper=proper), 'val': AnyVal()}

        def requires(self, val):
            return S.wf(self)

        def expected(self, val):
            return S.validate_outcome(self, val)
    _C.__name__ = _C.cname = cls.__name__ + '_validate'
    _C.gen = staticmethod(G.validate_case(cls, proper))
    return _C


Boolean_validate = _validate_contract(bv.Boolean)
Integer_validate = _validate_contract(bv.Integer, proper=True)
Real_validate = _validate_contract(bv.Real, proper=True)
String_validate = _validate_contract(bv.String)
Bytes_validate = _validate_contract(bv.Bytes)
Timestamp_validate = _validate_contract(bv.Timestamp)
Void_validate = _validate_contract(bv.Void)
Nullable_validate = _validate_contract(bv.Nullable)
List_validate = _validate_contract(bv.List)
Map_validate = _validate_contract(bv.Map)


# ---------------------------------------------------------------- message helpers
# Only used to build error messages; what callers rely on is that they return
# a string and never raise.

@contract(M + 'get_value_string', properties=['C08'])
class get_value_string_c:
    params = {'v': AnyVal()}

    def ensures(v, result, exc):
        return exc is None and isinstance(result, str)


@contract(M + 'generic_type_name', properties=['C08'])
class generic_type_name_c:
    params = {'v': AnyVal()}

    def ensures(v, result, exc):
        return exc is None and isinstance(result, str)


# ---------------------------------------------------------------- constructors

def _opt(x, dflt):
    if x is None:
        return dflt
    return x


@contract(M + 'Integer.__init__', properties=['C08'])
class Integer_init:
    params = {'self': Obj(bv.Integer, proper=True, fresh=True), 'min_value': AnyVal(), 'max_value': AnyVal()}

    def expected(self, min_value, max_value):
        if S.int_params_ok(self, min_value, max_value):
            return Ret(None)
        return Raise(AssertionError)

    def ensures(self, min_value, max_value, result, exc):
        return exc is not None or (
            self.minimum == _opt(min_value, self.default_minimum)
            and self.maximum == _opt(max_value, self.default_maximum)
            and S.wf(self))

    def gen(rng):
        cls = rng.choice(G.INT_CLASSES)
        pool = [None, None, 0, 1, -1, True, cls.default_minimum, cls.default_minimum - 1, cls.default_maximum,
                cls.default_maximum + 1, 1.0, '1', 5]
        from pyvc import native as N
        return {'self': {'k': 'obj', 'cls': cls.__module__ + ':' + cls.__qualname__, 'slots': {}, 'id': 1},
                'min_value': N.describe(rng.choice(pool)), 'max_value': N.describe(rng.choice(pool))}


def _self_desc(cls):
    return {'k': 'obj', 'cls': cls.__module__ + ':' + cls.__qualname__, 'slots': {}, 'id': 1}


def _pick(rng, pool):
    from pyvc import native as N
    return N.describe(rng.choice(pool))


@contract(M + 'Real.__init__', properties=['C08'])
class Real_init:
    params = {'self': Obj(bv.Real, proper=True, fresh=True), 'min_value': AnyVal(), 'max_value': AnyVal()}

    def expected(self, min_value, max_value):
        if S.real_params_ok(self, min_value, max_value):
            return Ret(None)
        return Raise(AssertionError)

    def ensures(self, min_value, max_value, result, exc):
        return exc is not None or (
            ((min_value is None and self.minimum == self.default_minimum)
             or (min_value is not None and isinstance(self.minimum, float)
                 and S.same_float(self.minimum, S.as_float(min_value))))
            and ((max_value is None and self.maximum == self.default_maximum)
                 or (max_value is not None and isinstance(self.maximum, float)
                     and S.same_float(self.maximum, S.as_float(max_value)))))

    def gen(rng):
        cls = rng.choice([bv.Float32, bv.Float64])
        pool = [None, None, 0, 1, -1, True, 1.5, -1.5, 3.40282e38, 3.4028200000000004e+38, -3.40282e38,
                -3.4028200000000004e+38, 1e300, 10 ** 400, -10 ** 400, '1', float('nan'), float('inf')]
        return {'self': _self_desc(cls), 'min_value': _pick(rng, pool), 'max_value': _pick(rng, pool)}


@contract(M + 'String.__init__', properties=['C08'])
class String_init:
    params = {'self': Obj(bv.String, fresh=True), 'min_length': AnyVal(), 'max_length': AnyVal(),
              'pattern': AnyVal()}

    def expected(self, min_length, max_length, pattern):
        if S.string_params_ok(min_length, max_length, pattern):
            return Ret(None)
        return Raise(AssertionError)

    def ensures(self, min_length, max_length, pattern, result, exc):
        return exc is not None or (
            self.min_length is min_length and self.max_length is max_length and self.pattern is pattern
            and S.wf(self))

    def gen(rng):
        pool = [None, None, 0, 1, 2, 3, -1, True, 1.0, 'a']
        pats = [None, None, '', 'a', 'a*', '(', '[', 'a|b', 3, b'a']
        return {'self': _self_desc(bv.String), 'min_length': _pick(rng, pool), 'max_length': _pick(rng, pool),
                'pattern': _pick(rng, pats)}


@contract(M + 'Bytes.__init__', properties=['C08'])
class Bytes_init:
    params = {'self': Obj(bv.Bytes, fresh=True), 'min_length': AnyVal(), 'max_length': AnyVal()}

    def expected(self, min_length, max_length):
        if S.length_params_ok(min_length, max_length):
            return Ret(None)
        return Raise(AssertionError)

    def ensures(self, min_length, max_length, result, exc):
        return exc is not None or (
            self.min_length is min_length and self.max_length is max_length and S.wf(self))

    def gen(rng):
        pool = [None, None, 0, 1, 2, 3, -1, True, 1.0, 'a']
        return {'self': _self_desc(bv.Bytes), 'min_length': _pick(rng, pool), 'max_length': _pick(rng, pool)}


@contract(M + 'Timestamp.__init__', properties=['C08'])
class Timestamp_init:
    params = {'self': Obj(bv.Timestamp, fresh=True), 'fmt': AnyVal()}

    def expected(self, fmt):
        if isinstance(fmt, str):
            return Ret(None)
        return Raise(AssertionError)

    def ensures(self, fmt, result, exc):
        return exc is not None or (self.format is fmt and S.wf(self))

    def gen(rng):
        return {'self': _self_desc(bv.Timestamp), 'fmt': _pick(rng, ['%Y', '', None, 3, b'%Y'])}


@contract(M + 'List.__init__', properties=['C08'])
class List_init:
    params = {'self': Obj(bv.List, fresh=True), 'item_validator': AnyVal(), 'min_items': AnyVal(),
              'max_items': AnyVal()}

    def expected(self, item_validator, min_items, max_items):
        if S.length_params_ok(min_items, max_items):
            return Ret(None)
        return Raise(AssertionError)

    def ensures(self, item_validator, min_items, max_items, result, exc):
        return exc is not None or (
            self.item_validator is item_validator and self.min_items is min_items
            and self.max_items is max_items and S.wf_list_params(self))

    def gen(rng):
        pool = [None, None, 0, 1, 2, 3, -1, True, 1.0, 'a']
        from pyvc import native as N
        return {'self': _self_desc(bv.List), 'item_validator': N.describe(G.gen_validator(rng, 1)),
                'min_items': _pick(rng, pool), 'max_items': _pick(rng, pool)}


@contract(M + 'Map.__init__', properties=['C08'])
class Map_init:
    params = {'self': Obj(bv.Map, fresh=True), 'key_validator': AnyVal(), 'value_validator': AnyVal()}

    def expected(self, key_validator, value_validator):
        return Ret(None)

    def ensures(self, key_validator, value_validator, result, exc):
        return exc is None and self.key_validator is key_validator and self.value_validator is value_validator

    def gen(rng):
        from pyvc import native as N
        return {'self': _self_desc(bv.Map), 'key_validator': N.describe(bv.String()),
                'value_validator': N.describe(G.gen_validator(rng, 1))}


@contract(M + 'Nullable.__init__', properties=['C08'])
class Nullable_init:
    params = {'self': Obj(bv.Nullable, fresh=True), 'validator': AnyVal()}

    def expected(self, validator):
        if S.nullable_param_ok(validator):
            return Ret(None)
        return Raise(AssertionError)

    def ensures(self, validator, result, exc):
        return exc is not None or self.validator is validator

    def gen(rng):
        from pyvc import native as N
        v = rng.choice([G.gen_validator(rng, 1), None, 3, bv.Void(), bv.Nullable(bv.String())])
        return {'self': _self_desc(bv.Nullable), 'validator': N.describe(v)}
