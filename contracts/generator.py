"""Bounded stand-in for the python_types generator: the constructor text it emits for an
IR data type evaluates to the validator tree rt(T) with exactly the declared parameters.
(The generator produces text; text is opaque to the VC generator -- not proved.)"""
from pyvc.contract import contract, AnyVal
import spec.gen_types as GT


@contract('stone.backends.python_types:generate_validator_constructor', properties=['C08', 'C10'], bounded=True)
class generate_validator_constructor:
    params = {'ns': AnyVal(), 'data_type': AnyVal()}

    def ensures(ns, data_type, result, exc):
        return exc is None and isinstance(result, str) and GT.matches(GT.evaluate(result), data_type, ns.name)

    gen = staticmethod(GT.gen)
