"""C07 (compatible evolution) at the entry points, against the statement (BOUNDED stand-in).  Two spec
versions are compiled with the tree's generator; the proved parts of this property are
determine_struct_tree_subtype (unknown subtypes: base struct when lenient and catch-all, refused when strict)
and the encoders / primitive decoders it composes."""
from pyvc.contract import contract, AnyVal, Lit, OneOf
import spec.evolve_gen as EG
import stone.backends.python_rsrc.stone_validators as bv
import stone.backends.python_rsrc.stone_serializers as ss

M = 'stone.backends.python_rsrc.stone_serializers:'


def _view_equal(type_name, got_obj, want_json):
    """the decoded object is the A-view: re-encoded by version A it is the projected document"""
    tA = EG.validator('A', type_name)
    return ss.json_compat_obj_encode(tA, got_obj) == want_json


@contract(M + 'json_compat_obj_decode#evolve_new_to_old', properties=['C07'], bounded=True)
class new_to_old:
    """C07: "every message encoded under B decodes leniently under A to the A-view of the value: unknown fields
    dropped, unknown tags read as `other`, unknown subtypes read as the base struct, new tag payloads ignored ...
    and strict decoding under A rejects precisely the B-messages that contain something A does not know" """
    params = {'data_type': AnyVal(), 'obj': AnyVal(), 'caller_permissions': Lit(None), 'alias_validators': Lit(None),
              'strict': OneOf(Lit(True), Lit(False))}

    def ensures(data_type, obj, caller_permissions, alias_validators, strict, result, exc):
        unknown = []
        want = EG.project(data_type, obj, unknown)
        if strict:
            if unknown:
                return exc is bv.ValidationError
            return exc is None and _reencodes(data_type, result, want)
        return exc is None and _reencodes(data_type, result, want)

    @staticmethod
    def gen(rng):
        name, seed = _pick(rng, 'B')
        call = lambda fn, *a: {'k': 'call', 'fn': fn, 'args': list(a)}
        return {'data_type': call('spec.evolve_gen:build_validator', 'A', name),
                'obj': call('contracts.evolve:message_of_b', name, seed),
                'caller_permissions': {'k': 'none'}, 'alias_validators': {'k': 'none'},
                'strict': {'k': 'bool', 'v': rng.random() < 0.5}}


def _pick(rng, version):
    """(type name, seed) for which the value generator yields a valid value in the domain"""
    import json
    for _ in range(400):
        name = rng.choice(EG.TYPES)
        seed = rng.randrange(10 ** 6)
        try:
            EG.build_value(version, name, seed)
        except ValueError:
            continue
        if version == 'A' and 'u_void2' in json.dumps(message_of_a(name, seed)):
            # "except through a tag that B changed from Void to a non-nullable type, a direction the guide
            # does not promise" (statement): u_void2 is that tag
            continue
        return name, seed
    raise ValueError('value generator exhausted')


def message_of_b(name, seed):
    return ss.json_compat_obj_encode(EG.validator('B', name), EG.build_value('B', name, seed))


def message_of_a(name, seed):
    return ss.json_compat_obj_encode(EG.validator('A', name), EG.build_value('A', name, seed))


def _reencodes(t, obj, want):
    """the decoded object IS the projected document (compared structurally: a base-struct instance read from
    an unknown subtype cannot be re-encoded through its enumerated-subtype validator)"""
    import stone.backends.python_rsrc.stone_base as bb
    if isinstance(t, bv.Nullable):
        return (obj is None and want is None) or (want is not None and _reencodes(t.validator, obj, want))
    if isinstance(t, bv.List):
        return isinstance(obj, list) and len(obj) == len(want) and all(_reencodes(t.item_validator, x, y) for x, y in zip(obj, want))
    if isinstance(t, bv.Map):
        return isinstance(obj, dict) and set(obj) == set(want) and all(_reencodes(t.value_validator, obj[k], want[k]) for k in want)
    if isinstance(t, bv.StructTree):
        if '.tag' in want:
            sub = t.definition._tag_to_subtype_[(want['.tag'],)]
            return type(obj) is sub.definition and _struct_matches(sub, obj, want)
        return type(obj) is t.definition and _struct_matches(t, obj, want)
    if isinstance(t, bv.Struct):
        return type(obj) is t.definition and _struct_matches(t, obj, want)
    if isinstance(t, bv.Union):
        if type(obj) is not t.definition or obj._tag != want['.tag']:
            return False
        tv = t.definition._tagmap[obj._tag]
        if isinstance(tv, bv.Void):
            return obj._value is None
        inner = tv.validator if isinstance(tv, bv.Nullable) else tv
        if isinstance(inner, bv.Struct) and not isinstance(inner, bv.StructTree):
            rest = dict((k, x) for k, x in want.items() if k != '.tag')
            if isinstance(tv, bv.Nullable) and not rest:
                return obj._value is None
            return _reencodes(inner, obj._value, rest)
        if obj._tag not in want:
            return obj._value is None
        return _reencodes(tv, obj._value, want[obj._tag])
    return type(obj) is type(want) and obj == want


def _struct_matches(t, obj, want):
    import stone.backends.python_rsrc.stone_base as bb
    for n, fv in t.definition._all_fields_:
        x = getattr(obj, '_%s_value' % n)
        if n in want and want[n] is not None:
            if x is bb.NOT_SET or not _reencodes(fv, x, want[n]):
                return False
        elif not (x is bb.NOT_SET or x is None):
            return False
    return True


@contract(M + 'json_compat_obj_decode#evolve_old_to_new', properties=['C07'], bounded=True)
class old_to_new:
    """C07: "every message encoded under A decodes under B to the same value with the new fields at their
    defaults" (strict and lenient): re-encoded by B it is the message again"""
    params = {'data_type': AnyVal(), 'obj': AnyVal(), 'caller_permissions': Lit(None), 'alias_validators': Lit(None),
              'strict': OneOf(Lit(True), Lit(False))}

    def ensures(data_type, obj, caller_permissions, alias_validators, strict, result, exc):
        return exc is None and ss.json_compat_obj_encode(data_type, result) == obj

    @staticmethod
    def gen(rng):
        name, seed = _pick(rng, 'A')
        call = lambda fn, *a: {'k': 'call', 'fn': fn, 'args': list(a)}
        return {'data_type': call('spec.evolve_gen:build_validator', 'B', name),
                'obj': call('contracts.evolve:message_of_a', name, seed),
                'caller_permissions': {'k': 'none'}, 'alias_validators': {'k': 'none'},
                'strict': {'k': 'bool', 'v': rng.random() < 0.5}}
