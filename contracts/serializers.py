"""Contracts for the encoder of stone_serializers.py (C05; C04, C07, C13 build on them)."""
from pyvc.contract import contract, Ret, Raise, Obj, AnyVal, Lit, OneOf, implies
import spec.runtime as S
import spec.gen as G
import stone.backends.python_rsrc.stone_validators as bv
import stone.backends.python_rsrc.stone_base as bb
import stone.backends.python_rsrc.stone_serializers as ss

M = 'stone.backends.python_rsrc.stone_serializers:'
PE = ['C05', 'C04']
SER = Obj(ss.StoneToPythonPrimitiveSerializer)
# the dispatching functions are verified kind by kind (smaller obligations)
ANY_VALIDATOR = OneOf(Obj(bv.List), Obj(bv.Map), Obj(bv.Nullable), Obj(bv.Primitive, proper=True),
                      Obj(bv.StructTree), Obj(bv.Struct, exact=True), Obj(bv.Union))


def _enc_requires(self, validator, value):
    return S.ctx_ok(self) and S.wf(validator) and S.enc_pre(validator, value)


@contract(M + 'StoneSerializerBase.encode_sub', properties=PE, raises=[bv.ValidationError])
class Base_encode_sub:
    """validate, then encode by the kind of the validator"""
    params = {'self': SER, 'validator': ANY_VALIDATOR, 'value': AnyVal()}

    def requires(self, validator, value):
        return _enc_requires(self, validator, value)

    def expected(self, validator, value):
        return S.encode_outcome(validator, value)


@contract('stone.backends.python_rsrc.stone_validators:Redactor.apply', properties=[], virtual=True, abstract=True,
          virtual_for=[bv.HashRedactor, bv.BlotRedactor])
class Redactor_apply:
    """ASSUMED: the redactor bodies (regex search, md5, string joins) are outside the VC generator;
    their result is the uninterpreted S.redact_apply(self, val)"""
    params = {'self': OneOf(Obj(bv.HashRedactor), Obj(bv.BlotRedactor)), 'val': AnyVal()}

    def expected(self, val):
        return Ret(S.redact_apply(self, val))


@contract(M + 'StoneToPythonPrimitiveSerializer.encode_sub', properties=PE + ['C13'], raises=[bv.ValidationError])
class Prim_encode_sub:
    """C13 (redaction hook): with redaction requested, the value of a validator that carries a redactor
    never reaches the ordinary encoder -- the result is the redactor's output, element-wise for lists
    and map values; without, the ordinary encoding"""
    params = {'self': SER, 'validator': ANY_VALIDATOR, 'value': AnyVal()}

    def requires(self, validator, value):
        # Two cases are specified: no redaction requested (ordinary encoding, C05), and redaction requested
        # on a validator that carries a redactor (the hook).  Redaction requested on a validator without one
        # recurses into the ordinary encoders with should_redact set; the Enc specification of this revision
        # has no redaction parameter, so that case is outside the contract (covered only by the bounded
        # entry-point check of C13).
        return (S.ctx_ok_r(self) and S.wf(validator) and S.enc_pre(validator, value)
                and (self.should_redact is False
                     or (hasattr(validator, '_redact') and S.redactor_ok(validator))))

    def expected(self, validator, value):
        if self.should_redact and hasattr(validator, '_redact'):
            return Ret(S.redacted(validator._redact, value))
        return S.encode_outcome(validator, value)


@contract(M + 'StoneToPythonPrimitiveSerializer.encode_nullable', properties=PE, raises=[bv.ValidationError])
class encode_nullable:
    params = {'self': SER, 'validator': Obj(bv.Nullable), 'value': AnyVal()}

    def requires(self, validator, value):
        return _enc_requires(self, validator, value) and S.valid(validator, value)

    def expected(self, validator, value):
        return S.encode_outcome(validator, value)


@contract(M + 'StoneToPythonPrimitiveSerializer.encode_primitive', properties=PE)
class encode_primitive:
    params = {'self': SER, 'validator': Obj(bv.Primitive), 'value': AnyVal()}

    def requires(self, validator, value):
        return _enc_requires(self, validator, value) and S.valid(validator, value)

    def expected(self, validator, value):
        return Ret(S.enc_primitive(validator, value))


@contract(M + 'StoneToPythonPrimitiveSerializer.encode_list', properties=PE, raises=[bv.ValidationError])
class encode_list:
    params = {'self': SER, 'validator': Obj(bv.List), 'value': AnyVal()}

    def requires(self, validator, value):
        return _enc_requires(self, validator, value)

    def expected(self, validator, value):
        return S.encode_outcome(validator, value)


@contract(M + 'StoneToPythonPrimitiveSerializer.encode_map', properties=PE, raises=[bv.ValidationError])
class encode_map:
    params = {'self': SER, 'validator': Obj(bv.Map), 'value': AnyVal()}

    def requires(self, validator, value):
        return _enc_requires(self, validator, value)

    def expected(self, validator, value):
        return S.encode_outcome(validator, value)


def _encode_struct_inv(validator, value, all_fields, d, k):
    """after k fields: d holds exactly the emitted ones among them, all of which encoded"""
    return (all_fields is validator.definition._all_fields_
            and S.enc_fields_ok(all_fields, k, value)
            and d == S.enc_fields_dict(all_fields, k, value))


@contract(M + 'StoneToPythonPrimitiveSerializer.encode_struct', properties=PE + ['C13'], raises=[bv.ValidationError],
          unfold=['wf', 'enc_fields_dict'])
class encode_struct:
    """one key per explicitly set field, in field order; a required field that is
    missing or a field that does not encode is a ValidationError"""
    params = {'self': SER, 'validator': Obj(bv.Struct), 'value': Obj(bb.Struct, generated=True)}

    def requires(self, validator, value):
        return (S.ctx_ok(self) and S.wf(validator) and S.struct_type_ok(validator, value)
                and all(S.field_enc_pre(f, value) for f in validator.definition._all_fields_))

    def expected(self, validator, value):
        if S.enc_struct_ok(validator, value):
            return Ret(S.enc_struct_val(validator, value))
        return Raise(bv.ValidationError)

    loops = {2: {'inv': _encode_struct_inv}}


@contract(M + 'StoneToPythonPrimitiveSerializer.encode_struct_tree', properties=PE, raises=[bv.ValidationError],
          unfold=['wf', 'valid', 'enc_pre'])
class encode_struct_tree:
    """a struct under an enumerated-subtype parent carries its subtype tag as .tag"""
    params = {'self': SER, 'validator': Obj(bv.StructTree), 'value': Obj(bb.Struct, generated=True)}

    def requires(self, validator, value):
        return (S.ctx_ok(self) and S.wf(validator) and S.valid(validator, value)
                and S.enc_pre(validator, value))

    def expected(self, validator, value):
        if S.enc_struct_ok(S.tree_entry(validator, value)[1], value):
            return Ret(S.dict_update({'.tag': S.tree_entry(validator, value)[0][0]},
                                     S.enc_struct_val(S.tree_entry(validator, value)[1], value)))
        return Raise(bv.ValidationError)


@contract(M + 'StoneToPythonPrimitiveSerializer.encode_union', properties=PE + ['C13'], raises=[bv.ValidationError],
          unfold=['wf', 'enc_pre', 'enc_val'])
class encode_union:
    """.tag plus: nothing for void / null members, the flattened fields of an
    ordinary struct member, or the value nested under the tag name otherwise"""
    params = {'self': SER, 'validator': Obj(bv.Union), 'value': Obj(bb.Union, generated=True)}

    def requires(self, validator, value):
        return (S.ctx_ok(self) and S.wf(validator) and S.union_type_ok(validator, value)
                and S.enc_pre(validator, value)
                and (value._tag is None or value._tag not in validator.definition._tagmap
                     or S.wf(validator.definition._tagmap[value._tag])))

    def expected(self, validator, value):
        if S.enc_union_ok(validator, value):
            return Ret(S.enc_union_val(validator, value))
        return Raise(bv.ValidationError)

Base_encode_sub.gen = staticmethod(G.encode_case())

Prim_encode_sub.gen = staticmethod(G.encode_case())

encode_nullable.gen = staticmethod(G.encode_case((bv.Nullable,)))

encode_primitive.gen = staticmethod(G.encode_case((bv.Primitive,)))

encode_list.gen = staticmethod(G.encode_case((bv.List,)))

encode_map.gen = staticmethod(G.encode_case((bv.Map,)))

encode_struct.gen = staticmethod(G.encode_case((bv.Struct,)))

encode_struct_tree.gen = staticmethod(G.encode_case((bv.StructTree,)))

encode_union.gen = staticmethod(G.encode_case((bv.Union,)))


# =====================================================================================
# Decoder (C06)
# =====================================================================================
DEC = Obj(ss.PythonPrimitiveToStoneDecoder)
PD = ['C06']


@contract(M + 'PythonPrimitiveToStoneDecoder.make_stone_friendly', properties=PD, raises=[bv.ValidationError])
class make_stone_friendly:
    """primitive JSON value -> python value; nothing but ValidationError may escape"""
    params = {'self': DEC, 'data_type': Obj(bv.Primitive, proper=True), 'val': AnyVal(),
              'validate': OneOf(Lit(True), Lit(False))}

    def requires(self, data_type, val, validate):
        return S.dctx_ok(self) and S.wf(data_type) and S.is_json(val)

    def expected(self, data_type, val, validate):
        if not S.prim_dec_ok(data_type, val, self.strict):
            return Raise(bv.ValidationError)
        if (validate and not isinstance(data_type, (bv.Timestamp, bv.Bytes, bv.Void))
                and not S.valid(data_type, val)):
            return Raise(bv.ValidationError)
        return Ret(S.prim_dec_val(data_type, val))


@contract(M + 'PythonPrimitiveToStoneDecoder.determine_struct_tree_subtype', properties=PD + ['C07'],
          raises=[bv.ValidationError])
class determine_struct_tree_subtype:
    """the subtype named by .tag; an unknown tag falls back to a catch-all base only when lenient"""
    params = {'self': DEC, 'data_type': Obj(bv.StructTree), 'obj': AnyVal()}

    def requires(self, data_type, obj):
        return S.dctx_ok(self) and S.wf(data_type) and S.is_json(obj) and S.json_keys_str(obj)

    def expected(self, data_type, obj):
        if S.tree_subtype_ok(data_type, obj, self.strict):
            return Ret(S.tree_subtype(data_type, obj))
        return Raise(bv.ValidationError)


def _dec_requires(self, data_type, obj):
    return S.dctx_ok(self) and S.wf(data_type) and S.json_deep(obj)


@contract(M + 'PythonPrimitiveToStoneDecoder.decode_struct', bounded=True, properties=PD, raises=[bv.ValidationError])
class decode_struct:
    """ASSUMED (heap-building function outside the VC generator's reach in this revision;
    compared with the reference decoder on sampled documents -- bounded stand-in)"""
    params = {'self': DEC, 'data_type': Obj(bv.Struct), 'obj': AnyVal()}

    def requires(self, data_type, obj):
        return _dec_requires(self, data_type, obj)

    def expected(self, data_type, obj):
        if S.dec_struct_ok(data_type, obj, self.strict):
            return Ret(S.dec_struct_obj(data_type, obj, self.strict))
        return Raise(bv.ValidationError)


@contract(M + 'PythonPrimitiveToStoneDecoder.json_compat_obj_decode_helper', bounded=True, properties=PD, raises=[bv.ValidationError])
class decode_helper:
    params = {'self': DEC, 'data_type': ANY_VALIDATOR, 'obj': AnyVal()}

    def requires(self, data_type, obj):
        return _dec_requires(self, data_type, obj)

    def expected(self, data_type, obj):
        return S.decode_outcome(data_type, obj, self.strict)


@contract(M + 'PythonPrimitiveToStoneDecoder.decode_list', properties=PD, raises=[bv.ValidationError])
class decode_list:
    params = {'self': DEC, 'data_type': Obj(bv.List), 'obj': AnyVal()}

    def requires(self, data_type, obj):
        return _dec_requires(self, data_type, obj)

    def expected(self, data_type, obj):
        return S.decode_outcome(data_type, obj, self.strict)


@contract(M + 'PythonPrimitiveToStoneDecoder.decode_map', properties=PD, raises=[bv.ValidationError])
class decode_map:
    params = {'self': DEC, 'data_type': Obj(bv.Map), 'obj': AnyVal()}

    def requires(self, data_type, obj):
        return _dec_requires(self, data_type, obj)

    def expected(self, data_type, obj):
        return S.decode_outcome(data_type, obj, self.strict)


@contract(M + 'PythonPrimitiveToStoneDecoder.decode_nullable', properties=PD, raises=[bv.ValidationError])
class decode_nullable:
    params = {'self': DEC, 'data_type': Obj(bv.Nullable), 'obj': AnyVal()}

    def requires(self, data_type, obj):
        return _dec_requires(self, data_type, obj)

    def expected(self, data_type, obj):
        return S.decode_outcome(data_type, obj, self.strict)


@contract(M + 'PythonPrimitiveToStoneDecoder.decode_struct_tree', bounded=True, properties=PD + ['C07'], raises=[bv.ValidationError])
class decode_struct_tree:
    params = {'self': DEC, 'data_type': Obj(bv.StructTree), 'obj': AnyVal()}

    def requires(self, data_type, obj):
        return _dec_requires(self, data_type, obj)

    def expected(self, data_type, obj):
        return S.decode_outcome(data_type, obj, self.strict)


@contract(M + 'PythonPrimitiveToStoneDecoder.decode_union_dict', bounded=True, properties=PD + ['C07'], raises=[bv.ValidationError])
class decode_union_dict:
    """(tag, payload) of a union document in object form"""
    params = {'self': DEC, 'data_type': Obj(bv.Union), 'obj': AnyVal()}

    def requires(self, data_type, obj):
        return _dec_requires(self, data_type, obj) and isinstance(obj, dict)

    def expected(self, data_type, obj):
        if '.tag' not in obj or not isinstance(obj['.tag'], str):
            return Raise(bv.ValidationError)
        if not S.union_tag_known(data_type, obj['.tag']):
            if not self.strict and data_type.definition._catch_all is not None:
                return Ret((data_type.definition._catch_all, None))
            return Raise(bv.ValidationError)
        if obj['.tag'] == data_type.definition._catch_all:
            return Raise(bv.ValidationError)
        if S.dec_member_ok(data_type.definition._tagmap[obj['.tag']], obj['.tag'], obj, self.strict):
            return Ret((obj['.tag'], S.dec_member_val(data_type.definition._tagmap[obj['.tag']], obj['.tag'], obj,
                                                      self.strict)))
        return Raise(bv.ValidationError)

make_stone_friendly.gen = staticmethod(lambda rng: dict(G.decode_case((bv.Primitive,))(rng), val=None) and _msf_case(rng))


def _msf_case(rng):
    d = G.decode_case((bv.Primitive,))(rng)
    return {'self': d['self'], 'data_type': d['data_type'], 'val': d['obj'],
            'validate': {'k': 'bool', 'v': rng.random() < 0.5}}


make_stone_friendly.gen = staticmethod(_msf_case)
determine_struct_tree_subtype.gen = staticmethod(G.decode_case((bv.StructTree,)))
decode_struct.gen = staticmethod(G.decode_case((bv.Struct,)))
decode_helper.gen = staticmethod(G.decode_case())
decode_list.gen = staticmethod(G.decode_case((bv.List,)))
decode_map.gen = staticmethod(G.decode_case((bv.Map,)))
decode_nullable.gen = staticmethod(G.decode_case((bv.Nullable,)))
decode_struct_tree.gen = staticmethod(G.decode_case((bv.StructTree,)))
decode_union_dict.gen = staticmethod(G.decode_case((bv.Union,), need_dict=True))
