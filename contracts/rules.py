"""C01 (accepts exactly the legal specs) at the entry point, against the statement (BOUNDED stand-in; the
proved part is the literal-check layer of the IR types, contracts/ir_types.py: a default / attribute literal is
accepted iff it fits the declared primitive type)."""
from pyvc.contract import contract, AnyVal
import spec.model_gen as MG
import spec.rules_gen as RG
import stone.frontend.exception as fe
import stone.ir.api as api
from contracts.frontend import escape_site


@contract('stone.frontend.frontend:specs_to_ir#rules', properties=['C01'], bounded=True)
class specs_to_ir_rules:
    """C01: "any single violation of such a rule, wherever it sits in the inputs, is reported as a spec error and
    no API description is produced; a spec that violates none is never refused": random models rendered to text,
    either as they are (must compile) or with one violation from a catalogue of 24 rules of docs/lang_ref.rst
    injected at a random applicable site (must raise InvalidSpec)"""
    params = {'specs': AnyVal()}

    def ensures(specs, result, exc):
        if specs.rule is None:
            return exc is None and isinstance(result, api.Api)
        return exc is fe.InvalidSpec

    @staticmethod
    def gen(rng):
        m = MG.gen_model(rng)
        k = None if rng.random() < 0.25 else rng.randrange(len(RG.CATALOGUE))
        return {'specs': {'k': 'call', 'fn': 'spec.rules_gen:build_case', 'args': [m, rng.randrange(10 ** 6), k]}}
