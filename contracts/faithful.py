"""C02 (faithful, closed image) -- proved: the by-name tables of a namespace are the tables of its listings
(add_data_type / add_alias / add_annotation / add_annotation_type, add_route in contracts/cli.py, normalize in
contracts/normalize.py); bounded: the description of a rendered random model against the model."""
from pyvc.contract import contract, Ret, Obj, AnyVal
import spec.model_gen as MG
import stone.ir.api as api
import stone.ir.data_types as dt


@contract('stone.ir.api:ApiNamespace.add_data_type', properties=['C02'])
class add_data_type:
    params = {'self': Obj(api.ApiNamespace), 'data_type': Obj(dt.UserDefined, proper=True)}

    def requires(self, data_type):
        return isinstance(self.data_types, list) and isinstance(self.data_type_by_name, dict) and isinstance(data_type.name, str)

    def snapshot(self, data_type):
        return (self.data_types, self.data_type_by_name)

    def ensures(self, data_type, result, exc, old):
        return (exc is None and len(self.data_types) == len(old[0]) + 1 and self.data_types[len(old[0])] is data_type
                and all(self.data_types[i] is old[0][i] for i in range(len(old[0])))
                and self.data_type_by_name[data_type.name] is data_type)


@contract('stone.ir.api:ApiNamespace.add_alias', properties=['C02'])
class add_alias:
    params = {'self': Obj(api.ApiNamespace), 'alias': Obj(dt.Alias)}

    def requires(self, alias):
        return isinstance(self.aliases, list) and isinstance(self.alias_by_name, dict) and isinstance(alias.name, str)

    def snapshot(self, alias):
        return (self.aliases, self.alias_by_name)

    def ensures(self, alias, result, exc, old):
        return (exc is None and len(self.aliases) == len(old[0]) + 1 and self.aliases[len(old[0])] is alias
                and all(self.aliases[i] is old[0][i] for i in range(len(old[0])))
                and self.alias_by_name[alias.name] is alias)


@contract('stone.frontend.frontend:specs_to_ir#faithful', properties=['C02'], bounded=True)
class specs_to_ir_faithful:
    """C02: "the API description handed to backends contains exactly the declared namespaces, types, aliases,
    routes ..., with the declared names, field order, types and type arguments, nullability, defaults, docs, route
    versions, deprecations and attributes, plus only the documented implicit members ...; struct field listings
    put inherited and required fields first; routes, data types, aliases and namespaces are alphabetical with
    linearizations placing each parent and alias target before its dependants" -- for random models rendered
    to text (definitions of a namespace in shuffled order)"""
    params = {'specs': AnyVal()}

    def ensures(specs, result, exc):
        if exc is not None:
            return False
        problems = []
        return MG.compare(specs.model, result, problems)

    @staticmethod
    def gen(rng):
        return {'specs': {'k': 'call', 'fn': 'spec.model_gen:build_spec_list', 'args': [MG.gen_model(rng), rng.randrange(10 ** 6)]}}


@contract('stone.ir.api:ApiNamespace.add_annotation', properties=['C02'])
class add_annotation:
    params = {'self': Obj(api.ApiNamespace), 'annotation': Obj(dt.Annotation, proper=True)}

    def requires(self, annotation):
        return isinstance(self.annotations, list) and isinstance(self.annotation_by_name, dict) and isinstance(annotation.name, str)

    def snapshot(self, annotation):
        return (self.annotations, self.annotation_by_name)

    def ensures(self, annotation, result, exc, old):
        return (exc is None and len(self.annotations) == len(old[0]) + 1 and self.annotations[len(old[0])] is annotation
                and all(self.annotations[i] is old[0][i] for i in range(len(old[0])))
                and self.annotation_by_name[annotation.name] is annotation)


@contract('stone.ir.api:ApiNamespace.add_annotation_type', properties=['C02'])
class add_annotation_type:
    params = {'self': Obj(api.ApiNamespace), 'annotation_type': Obj(dt.AnnotationType)}

    def requires(self, annotation_type):
        return (isinstance(self.annotation_types, list) and isinstance(self.annotation_type_by_name, dict)
                and isinstance(annotation_type.name, str))

    def snapshot(self, annotation_type):
        return (self.annotation_types, self.annotation_type_by_name)

    def ensures(self, annotation_type, result, exc, old):
        return (exc is None and len(self.annotation_types) == len(old[0]) + 1
                and self.annotation_types[len(old[0])] is annotation_type
                and all(self.annotation_types[i] is old[0][i] for i in range(len(old[0])))
                and self.annotation_type_by_name[annotation_type.name] is annotation_type)


def _table_gen(param, kinds):
    def gen(rng):
        call = lambda fn, *a: {'k': 'call', 'fn': fn, 'args': list(a)}
        return {'self': call('spec.backend_gen:build_namespace', rng.randrange(0, 3)),
                param: call('spec.backend_gen:build_item', rng.choice(kinds), rng.choice(['T0', 'A1', 'New', 'Zed']))}
    return staticmethod(gen)


add_data_type.gen = _table_gen('data_type', ['struct', 'union'])
add_alias.gen = _table_gen('alias', ['alias'])
add_annotation.gen = _table_gen('annotation', ['annotation'])
add_annotation_type.gen = _table_gen('annotation_type', ['annotation_type'])
