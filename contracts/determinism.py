"""C12 (deterministic code generation) at the compiler entry point, against the statement (BOUNDED stand-in:
the property relates runs in different processes; the proved ingredient is ApiNamespace.normalize, which
makes every listing of the description independent of insertion order)."""
import os
import shutil
import tempfile

from pyvc.contract import contract, AnyVal
import spec.determinism as D

GRID = [(b, w) for b in sorted(D.BACKENDS) for w in ('annotated', 'corpus', 'routes')]
_NEXT = [0]


def build_compiler(backend_name, which):
    """a Compiler ready to build into a fresh temporary folder (removed by the check after comparison)"""
    import importlib
    from stone.frontend.frontend import specs_to_ir
    from stone.compiler import Compiler
    import atexit
    d = tempfile.mkdtemp(prefix='verif_det_main_')
    atexit.register(shutil.rmtree, d, True)
    out = os.path.join(d, 'out')
    os.makedirs(out)
    args = D.with_template(backend_name, d)
    c = Compiler(specs_to_ir(D.spec_set(which)), importlib.import_module('stone.backends.' + D.module_of(backend_name)), args, out,
                 clean_build=False)
    c._verif = (backend_name, which, d, out)
    return c


@contract('stone.compiler:Compiler.build#determinism', properties=['C12'], bounded=True,
          samples={'quick': len(GRID), 'thorough': 2 * len(GRID)})
class build_deterministic:
    """C12: "running any built-in backend on the same specs with the same arguments produces byte-identical
    files every time: across separate processes with different hash seeds, into different output directories":
    the files this process wrote (hash seed 0) against fresh processes with other hash seeds and folders"""
    params = {'self': AnyVal()}

    def ensures(self, result, exc):
        import hashlib
        backend_name, which, d, out = self._verif
        try:
            if exc is not None:
                return False
            mine = {}
            for dp, dns, fns in os.walk(out):
                for fn in fns:
                    p = os.path.join(dp, fn)
                    mine[os.path.relpath(p, out)] = hashlib.sha256(open(p, 'rb').read()).hexdigest()
            seeds = (1, 2) if os.environ.get('PYVC_TIER', 'quick') == 'quick' else (1, 2, 3, 5, 8)
            return all(D.generate_in_subprocess(backend_name, which, s) == mine for s in seeds)
        finally:
            shutil.rmtree(d, True)

    @staticmethod
    def gen(rng):
        # the grid backend x spec set is enumerated in order (exhaustive in every run)
        b, w = GRID[_NEXT[0] % len(GRID)]
        _NEXT[0] += 1
        return {'self': {'k': 'call', 'fn': 'contracts.determinism:build_compiler', 'args': [b, w]}}
