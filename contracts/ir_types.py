"""Contracts for the literal checks and constructors of stone/ir/data_types.py
(C10: compile-time literal checks; C03: only the documented error classes
escape; C01: a literal is accepted iff it fits)."""
from pyvc.contract import contract, Ret, Raise, Obj, AnyVal, Lit, OneOf
import spec.runtime as S
import spec.ir as SI
import stone.ir.data_types as ir
from stone.frontend.ast import AstExampleField
from stone.frontend.exception import InvalidSpec
from pyvc import native as N

M = 'stone.ir.data_types:'
P3 = ['C10', 'C03', 'C01']


def _ex(ex_field):
    return ex_field.value


@contract(M + '_BoundedInteger.check', properties=P3, raises=[ValueError])
class BoundedInteger_check:
    params = {'self': Obj(ir._BoundedInteger, proper=True), 'val': AnyVal()}

    def requires(self, val):
        return SI.ir_int_params_ok(self) and SI.grammar_value(val)

    def gen(rng):
        cls = rng.choice([ir.Int32, ir.UInt32, ir.Int64, ir.UInt64])
        pool = [x for x in [cls.minimum, cls.minimum + 1, 0, 1, 5, cls.maximum - 1, cls.maximum] if cls.minimum <= x <= cls.maximum]
        t = cls(min_value=rng.choice([None] + pool), max_value=rng.choice([None] + pool))
        vals = pool + [cls.minimum - 1, cls.maximum + 1, True, False, 1.0, None, 'a', [1]]
        if t.min_value is not None:
            vals += [t.min_value - 1, t.min_value]
        if t.max_value is not None:
            vals += [t.max_value + 1, t.max_value]
        return {'self': N.describe(t), 'val': N.describe(rng.choice(vals))}

    def expected(self, val):
        return SI.check_outcome(SI.ir_int_accepts(self, val))


@contract(M + '_BoundedFloat.check', properties=P3, raises=[ValueError])
class BoundedFloat_check:
    params = {'self': Obj(ir._BoundedFloat, proper=True), 'val': AnyVal()}

    def requires(self, val):
        return SI.ir_float_params_ok(self) and SI.grammar_value(val)

    def gen(rng):
        cls = rng.choice([ir.Float32, ir.Float64])
        pool = [None, None, -1.5, 0.0, 1.0, 2.5, 1e30, -1e30, 5, -7]
        t = cls(min_value=rng.choice(pool), max_value=rng.choice(pool))
        vals = [0.0, -0.0, 1.0, 1, 0, True, 2.5, 3.0, -2.0, 1e31, -1e31, 3.5e38, -3.5e38, 10 ** 400, float('nan'),
                float('inf'), None, 'x', 6, -8, 2 ** 1024 - 2 ** 970]
        return {'self': N.describe(t), 'val': N.describe(rng.choice(vals))}

    def expected(self, val):
        return SI.check_outcome(SI.ir_float_accepts(self, val))


@contract(M + 'String.check', properties=P3, raises=[ValueError])
class String_check:
    params = {'self': Obj(ir.String), 'val': AnyVal()}

    def requires(self, val):
        return SI.ir_string_params_ok(self) and SI.grammar_value(val)

    def gen(rng):
        lo = rng.choice([None, 0, 1, 2])
        hi = rng.choice([None, 1, 2, 3])
        if lo and hi and hi < lo:
            lo, hi = hi, lo
        t = ir.String(min_length=lo, max_length=hi, pattern=rng.choice([None, None, 'a', 'a*', '[a-z]+', 'ab|cd', 'a$']))
        vals = ['', 'a', 'ab', 'abc', 'aaa', 'cd', 'a\n', 'abX', 'cdcd', 1, None, True]
        return {'self': N.describe(t), 'val': N.describe(rng.choice(vals))}

    def expected(self, val):
        return SI.check_outcome(SI.ir_string_accepts(self, val))


@contract(M + 'Boolean.check', properties=P3, raises=[ValueError])
class Boolean_check:
    params = {'self': Obj(ir.Boolean), 'val': AnyVal()}

    def requires(self, val):
        return SI.grammar_value(val)

    def expected(self, val):
        return SI.check_outcome(SI.ir_boolean_accepts(val))


@contract(M + 'Bytes.check', properties=P3, raises=[ValueError])
class Bytes_check:
    params = {'self': Obj(ir.Bytes), 'val': AnyVal()}

    def requires(self, val):
        return SI.grammar_value(val)

    def expected(self, val):
        return SI.check_outcome(SI.ir_bytes_accepts(val))


@contract(M + 'Void.check', properties=P3, raises=[ValueError])
class Void_check:
    params = {'self': Obj(ir.Void), 'val': AnyVal()}

    def requires(self, val):
        return SI.grammar_value(val)

    def expected(self, val):
        return SI.check_outcome(val is None)


# =====================================================================================
# Type arguments (C01: "legal ... type arguments"; C03: only ParameterError leaves a constructor, which
# _instantiate_data_type turns into the spec error)
# =====================================================================================
PA = ['C01', 'C03', 'C10']


def _fresh(cls):
    return {'k': 'obj', 'cls': cls.__module__ + ':' + cls.__qualname__, 'slots': {}, 'id': 1}


def _pick(rng, pool):
    return N.describe(rng.choice(pool))


@contract(M + '_BoundedInteger.__init__', properties=PA, raises=[ir.ParameterError])
class BoundedInteger_init:
    """min_value / max_value are integers inside the range of the type, or the constructor refuses with
    ParameterError; on success the object satisfies what `check` relies on"""
    params = {'self': Obj(ir._BoundedInteger, proper=True, fresh=True), 'min_value': AnyVal(), 'max_value': AnyVal()}

    def requires(self, min_value, max_value):
        return SI.grammar_value(min_value) and SI.grammar_value(max_value)

    def expected(self, min_value, max_value):
        return SI.param_outcome(SI.ir_int_args_ok(self, min_value, max_value))

    def ensures(self, min_value, max_value, result, exc):
        return exc is not None or (self.min_value is min_value and self.max_value is max_value
                                   and SI.ir_int_params_ok(self))

    def gen(rng):
        cls = rng.choice([ir.Int32, ir.UInt32, ir.Int64, ir.UInt64])
        pool = [None, None, 0, 1, -1, True, cls.minimum, cls.minimum - 1, cls.maximum, cls.maximum + 1, 1.0, '1', 5, [1]]
        return {'self': _fresh(cls), 'min_value': _pick(rng, pool), 'max_value': _pick(rng, pool)}


@contract(M + '_BoundedFloat.__init__', properties=PA, raises=[ir.ParameterError])
class BoundedFloat_init:
    """min_value / max_value are real numbers representable as doubles inside the range of the type; they
    are stored as floats"""
    params = {'self': Obj(ir._BoundedFloat, proper=True, fresh=True), 'min_value': AnyVal(), 'max_value': AnyVal()}

    def requires(self, min_value, max_value):
        return SI.grammar_value(min_value) and SI.grammar_value(max_value)

    def expected(self, min_value, max_value):
        return SI.param_outcome(SI.ir_float_args_ok(self, min_value, max_value))

    def ensures(self, min_value, max_value, result, exc):
        return exc is not None or (
            ((min_value is None and self.min_value is None)
             or (min_value is not None and isinstance(self.min_value, float)
                 and S.same_float(self.min_value, S.as_float(min_value))))
            and ((max_value is None and self.max_value is None)
                 or (max_value is not None and isinstance(self.max_value, float)
                     and S.same_float(self.max_value, S.as_float(max_value))))
            and SI.ir_float_params_ok(self))

    def gen(rng):
        cls = rng.choice([ir.Float32, ir.Float64])
        pool = [None, None, 0, 1, -1, True, 1.5, -1.5, 3.40282e38, 3.4028200000000004e+38, -3.40282e38,
                -3.4028200000000004e+38, 1e300, 10 ** 400, -10 ** 400, '1', float('nan'), float('inf'), [1.0]]
        return {'self': _fresh(cls), 'min_value': _pick(rng, pool), 'max_value': _pick(rng, pool)}


@contract(M + 'String.__init__', properties=PA, raises=[ir.ParameterError])
class String_init:
    params = {'self': Obj(ir.String, fresh=True), 'min_length': AnyVal(), 'max_length': AnyVal(), 'pattern': AnyVal()}

    def requires(self, min_length, max_length, pattern):
        return SI.grammar_value(min_length) and SI.grammar_value(max_length) and SI.grammar_value(pattern)

    def expected(self, min_length, max_length, pattern):
        return SI.param_outcome(SI.ir_string_args_ok(min_length, max_length, pattern))

    def ensures(self, min_length, max_length, pattern, result, exc):
        return exc is not None or (self.min_length is min_length and self.max_length is max_length
                                   and self.pattern is pattern and SI.ir_string_params_ok(self))

    def gen(rng):
        pool = [None, None, 0, 1, 2, 3, -1, True, 1.0, 'a', [1]]
        pats = [None, None, '', 'a', 'a*', '(', '[', 'a|b', 3, 0, 1.5, ['a'], True, False]
        return {'self': _fresh(ir.String), 'min_length': _pick(rng, pool), 'max_length': _pick(rng, pool),
                'pattern': _pick(rng, pats)}


@contract(M + 'Timestamp.__init__', properties=PA, raises=[ir.ParameterError])
class Timestamp_init:
    params = {'self': Obj(ir.Timestamp, fresh=True), 'fmt': AnyVal()}

    def requires(self, fmt):
        return SI.grammar_value(fmt)

    def expected(self, fmt):
        return SI.param_outcome(isinstance(fmt, str))

    def ensures(self, fmt, result, exc):
        return exc is not None or self.format is fmt

    def gen(rng):
        return {'self': _fresh(ir.Timestamp), 'fmt': _pick(rng, ['%Y', '', None, 3, 1.5, True, ['%Y']])}


@contract(M + 'List.__init__', properties=PA, raises=[ir.ParameterError])
class List_init:
    params = {'self': Obj(ir.List, fresh=True), 'data_type': AnyVal(), 'min_items': AnyVal(), 'max_items': AnyVal()}

    def requires(self, data_type, min_items, max_items):
        return SI.grammar_value(min_items) and SI.grammar_value(max_items)

    def expected(self, data_type, min_items, max_items):
        return SI.param_outcome(SI.ir_list_args_ok(min_items, max_items))

    def ensures(self, data_type, min_items, max_items, result, exc):
        return exc is not None or (self.data_type is data_type and self.min_items is min_items
                                   and self.max_items is max_items)

    def gen(rng):
        pool = [None, None, 0, 1, 2, 3, -1, True, 1.0, 'a', [1], 2.5]
        return {'self': _fresh(ir.List), 'data_type': N.describe(ir.String()), 'min_items': _pick(rng, pool),
                'max_items': _pick(rng, pool)}


@contract(M + 'Map.__init__', properties=PA, raises=[ir.ParameterError])
class Map_init:
    """only String (possibly with arguments) is a legal key type"""
    params = {'self': Obj(ir.Map, fresh=True), 'key_data_type': AnyVal(), 'value_data_type': AnyVal()}

    def expected(self, key_data_type, value_data_type):
        return SI.param_outcome(isinstance(key_data_type, ir.String))

    def ensures(self, key_data_type, value_data_type, result, exc):
        return exc is not None or (self.key_data_type is key_data_type and self.value_data_type is value_data_type)

    def gen(rng):
        k = rng.choice([ir.String(), ir.String(min_length=1), ir.Int32(), ir.Boolean(), ir.Bytes(), ir.Nullable(ir.String()), None, 3])
        return {'self': _fresh(ir.Map), 'key_data_type': N.describe(k), 'value_data_type': N.describe(ir.Int64())}


@contract(M + 'Nullable.check', properties=['C10', 'C03', 'C01'])
class Nullable_check:
    """null is always accepted; anything else is the inner type's business (modular: the inner check is
    called, never inlined)"""
    params = {'self': Obj(ir.Nullable), 'val': AnyVal()}

    def requires(self, val):
        return (SI.grammar_value(val) and isinstance(self.data_type, ir.Boolean))

    def expected(self, val):
        return SI.check_outcome(val is None or SI.ir_boolean_accepts(val))

    def gen(rng):
        return {'self': N.describe(ir.Nullable(ir.Boolean())), 'val': _pick(rng, [None, True, False, 0, 1, 'a', 1.5, [True]])}


@contract(M + 'List._check_list_container', properties=['C10', 'C03', 'C01'])
class List_check_list_container:
    params = {'self': Obj(ir.List), 'val': AnyVal()}

    def requires(self, val):
        return (SI.grammar_value(val) and S.opt_int_ge(self.min_items, 0) and S.opt_int_ge(self.max_items, 1))

    def expected(self, val):
        return SI.check_outcome(SI.ir_list_accepts_container(self, val))

    def gen(rng):
        lo = rng.choice([None, 0, 1, 2]); hi = rng.choice([None, 1, 2, 3])
        if lo and hi and hi < lo:
            lo, hi = hi, lo
        return {'self': N.describe(ir.List(ir.String(), min_items=lo, max_items=hi)),
                'val': _pick(rng, [[], [1], [1, 2], [1, 2, 3], [1, 2, 3, 4], None, 'ab', 3, {'a': 1}, True])}


@contract(M + 'Timestamp.check', properties=P3, raises=[ValueError])
class Timestamp_check:
    """a string that strptime accepts for the declared format (axiom TS: strptime raises nothing but ValueError
    on two strings)"""
    params = {'self': Obj(ir.Timestamp), 'val': AnyVal()}

    def requires(self, val):
        return isinstance(self.format, str) and SI.grammar_value(val)

    def expected(self, val):
        return SI.check_outcome(isinstance(val, str) and S.strptime_ok(val, self.format))

    def gen(rng):
        t = ir.Timestamp(rng.choice(['%Y-%m-%d', '%Y', '%H:%M', '', '%Y-%m-%dT%H:%M:%SZ', '%q']))
        return {'self': N.describe(t), 'val': _pick(rng, ['2020-01-02', '2020', '12:30', '', 'x', '2020-13-01', 3, None, True, 1.5,
                                                         '2020-01-02T03:04:05Z', ['2020']])}
