"""Contracts for the literal checks and constructors of stone/ir/data_types.py
(C10: compile-time literal checks; C03: only the documented error classes
escape; C01: a literal is accepted iff it fits)."""
from pyvc.contract import contract, Ret, Raise, Obj, AnyVal, Lit, OneOf
import spec.runtime as S
import spec.ir as SI
import stone.ir.data_types as ir
from stone.frontend.ast import AstExampleField
from stone.frontend.exception import InvalidSpec
from pyvc import native as N

M = 'stone.ir.data_types:'
P3 = ['C10', 'C03', 'C01']


def _ex(ex_field):
    return ex_field.value


@contract(M + '_BoundedInteger.check', properties=P3)
class BoundedInteger_check:
    params = {'self': Obj(ir._BoundedInteger, proper=True), 'val': AnyVal()}

    def requires(self, val):
        return SI.ir_int_params_ok(self) and SI.grammar_value(val)

    def gen(rng):
        cls = rng.choice([ir.Int32, ir.UInt32, ir.Int64, ir.UInt64])
        pool = [x for x in [cls.minimum, cls.minimum + 1, 0, 1, 5, cls.maximum - 1, cls.maximum] if cls.minimum <= x <= cls.maximum]
        t = cls(min_value=rng.choice([None] + pool), max_value=rng.choice([None] + pool))
        vals = pool + [cls.minimum - 1, cls.maximum + 1, True, False, 1.0, None, 'a', [1]]
        if t.min_value is not None:
            vals += [t.min_value - 1, t.min_value]
        if t.max_value is not None:
            vals += [t.max_value + 1, t.max_value]
        return {'self': N.describe(t), 'val': N.describe(rng.choice(vals))}

    def expected(self, val):
        return SI.check_outcome(SI.ir_int_accepts(self, val))


@contract(M + '_BoundedFloat.check', properties=P3)
class BoundedFloat_check:
    params = {'self': Obj(ir._BoundedFloat, proper=True), 'val': AnyVal()}

    def requires(self, val):
        return SI.ir_float_params_ok(self) and SI.grammar_value(val)

    def gen(rng):
        cls = rng.choice([ir.Float32, ir.Float64])
        pool = [None, None, -1.5, 0.0, 1.0, 2.5, 1e30, -1e30, 5, -7]
        t = cls(min_value=rng.choice(pool), max_value=rng.choice(pool))
        vals = [0.0, -0.0, 1.0, 1, 0, True, 2.5, 3.0, -2.0, 1e31, -1e31, 3.5e38, -3.5e38, 10 ** 400, float('nan'),
                float('inf'), None, 'x', 6, -8, 2 ** 1024 - 2 ** 970]
        return {'self': N.describe(t), 'val': N.describe(rng.choice(vals))}

    def expected(self, val):
        return SI.check_outcome(SI.ir_float_accepts(self, val))


@contract(M + 'String.check', properties=P3)
class String_check:
    params = {'self': Obj(ir.String), 'val': AnyVal()}

    def requires(self, val):
        return SI.ir_string_params_ok(self) and SI.grammar_value(val)

    def gen(rng):
        lo = rng.choice([None, 0, 1, 2])
        hi = rng.choice([None, 1, 2, 3])
        if lo and hi and hi < lo:
            lo, hi = hi, lo
        t = ir.String(min_length=lo, max_length=hi, pattern=rng.choice([None, None, 'a', 'a*', '[a-z]+', 'ab|cd', 'a$']))
        vals = ['', 'a', 'ab', 'abc', 'aaa', 'cd', 'a\n', 'abX', 'cdcd', 1, None, True]
        return {'self': N.describe(t), 'val': N.describe(rng.choice(vals))}

    def expected(self, val):
        return SI.check_outcome(SI.ir_string_accepts(self, val))


@contract(M + 'Boolean.check', properties=P3)
class Boolean_check:
    params = {'self': Obj(ir.Boolean), 'val': AnyVal()}

    def requires(self, val):
        return SI.grammar_value(val)

    def expected(self, val):
        return SI.check_outcome(SI.ir_boolean_accepts(val))


@contract(M + 'Bytes.check', properties=P3)
class Bytes_check:
    params = {'self': Obj(ir.Bytes), 'val': AnyVal()}

    def requires(self, val):
        return SI.grammar_value(val)

    def expected(self, val):
        return SI.check_outcome(SI.ir_bytes_accepts(val))


@contract(M + 'Void.check', properties=P3)
class Void_check:
    params = {'self': Obj(ir.Void), 'val': AnyVal()}

    def requires(self, val):
        return SI.grammar_value(val)

    def expected(self, val):
        return SI.check_outcome(val is None)
