"""Contracts for stone/cli_helpers.py and the route tables of stone/ir/api.py (C19)."""
from pyvc.contract import contract, Ret, Raise, Obj, AnyVal, Lit, OneOf
from pyvc import native as N
import spec.cli as SC
import stone.cli_helpers as ch
import stone.ir.api as api

M = 'stone.cli_helpers:'


def _rand_expr(rng, depth=0):
    lits = [None, True, False, 0, 1, -1, 1.0, 2.5, '', 'a', 'b']
    if depth >= 3 or rng.random() < 0.4:
        return ch.FilterExprPredicate(rng.choice(['=', '!=']), rng.choice(['x', 'y', 'z']), rng.choice(lits))
    return ch.FilterExprConjunction(rng.choice(['and', 'or']), _rand_expr(rng, depth + 1), _rand_expr(rng, depth + 1))


def _rand_route(rng):
    lits = [None, True, False, 0, 1, -1, 1.0, 2.5, '', 'a', 'b']
    attrs = {}
    for k in ('x', 'y', 'z'):
        if rng.random() < 0.7:
            attrs[k] = rng.choice(lits)
    return {'k': 'obj', 'cls': 'stone.ir.api:ApiRoute', 'slots': {'attrs': N.describe(attrs)}, 'id': 9}


def _gen(kind):
    def gen(rng):
        for _ in range(1000):
            e = _rand_expr(rng)
            if isinstance(e, kind):
                return {'self': N.describe(e), 'route': _rand_route(rng)}
    return gen


@contract(M + 'FilterExpr.eval', properties=[], virtual=True, abstract=True,
          virtual_for=[ch.FilterExprPredicate, ch.FilterExprConjunction])
class FilterExpr_eval:
    params = {'self': OneOf(Obj(ch.FilterExprPredicate), Obj(ch.FilterExprConjunction)), 'route': Obj(api.ApiRoute)}

    def requires(self, route):
        return SC.wf_expr(self) and SC.route_ok(route)

    def expected(self, route):
        return Ret(SC.expr_value(self, route))


@contract(M + 'FilterExprPredicate.eval', properties=['C19'])
class Predicate_eval:
    """a route satisfies `attr = literal` iff its attribute (null when absent) equals the literal"""
    params = {'self': Obj(ch.FilterExprPredicate), 'route': Obj(api.ApiRoute)}

    def requires(self, route):
        return SC.wf_expr(self) and SC.route_ok(route)

    def expected(self, route):
        return Ret(SC.expr_value(self, route))

    gen = staticmethod(_gen(ch.FilterExprPredicate))


@contract(M + 'FilterExprConjunction.eval', properties=['C19'])
class Conjunction_eval:
    params = {'self': Obj(ch.FilterExprConjunction), 'route': Obj(api.ApiRoute)}

    def requires(self, route):
        return SC.wf_expr(self) and SC.route_ok(route)

    def expected(self, route):
        return Ret(SC.expr_value(self, route))

    gen = staticmethod(_gen(ch.FilterExprConjunction))


# ---------------------------------------------------------------- route tables (stone/ir/api.py)

def _ns_ok(ns):
    return (isinstance(ns.routes, list) and isinstance(ns.route_by_name, dict) and isinstance(ns.routes_by_name, dict)
            and all(isinstance(ns.routes_by_name[k], api.ApiRoutesByVersion)
                    and isinstance(ns.routes_by_name[k].at_version, dict) for k in ns.routes_by_name))


def _gen_add_route(rng):
    ns = api.ApiNamespace('n')
    for k in range(rng.randrange(0, 3)):
        r = api.ApiRoute(rng.choice(['a', 'b']), rng.choice([1, 2]), None)
        ns.add_route(r)
    new = {'k': 'obj', 'cls': 'stone.ir.api:ApiRoute', 'id': 77,
           'slots': {'name': N.describe(rng.choice(['a', 'b', 'c'])), 'version': N.describe(rng.choice([1, 2, 3]))}}
    return {'self': N.describe(ns), 'route': new}


@contract('stone.ir.api:ApiNamespace.add_route', properties=['C19', 'C20', 'C02'])
class add_route:
    """the by-name route tables are exactly the tables of the route list: the new
    route is appended, registered under (name, version), and under name when version 1"""
    params = {'self': Obj(api.ApiNamespace), 'route': Obj(api.ApiRoute)}

    def requires(self, route):
        return _ns_ok(self) and isinstance(route.name, str) and isinstance(route.version, int)

    def snapshot(self, route):
        return (self.routes, self.route_by_name, self.routes_by_name,
                route.name in self.routes_by_name,
                self.routes_by_name[route.name].at_version if route.name in self.routes_by_name else {})

    def expected(self, route):
        return Ret(None)

    def ensures(self, route, result, exc, old):
        return (exc is None
                and len(self.routes) == len(old[0]) + 1 and self.routes[len(old[0])] is route
                and all(self.routes[i] is old[0][i] for i in range(len(old[0])))
                and (route.version != 1 or self.route_by_name[route.name] is route)
                and route.name in self.routes_by_name
                and self.routes_by_name[route.name].at_version[route.version] is route)

    gen = staticmethod(_gen_add_route)


# ---------------------------------------------------------------- the route-selection code of main()

from pyvc import slices
import spec.cli_gen as CG

slices.register(
    'stone.cli:main@select_routes',
    ranges=[('if args.filter_by_route_attr:', 'if args.filter_by_route_attr:'),
            ('if args.whitelist_namespace_routes:', 'if attrs:')],
    params=['args', 'api', 'debug'],
    drops='everything of main() outside the two statement ranges: argument parsing, backend lookup, reading of the '
          'spec files / stdin, the route-whitelist file, the call of specs_to_ir (its result is the parameter `api`), '
          'and the execution of the backend; `sys.exit` is observed as SystemExit')


@contract('stone.cli:main@select_routes', properties=['C19'], bounded=True)
class select_routes:
    """what the backends see after -f / -w / -b / -a: exactly the routes of the selected
    namespaces that satisfy the expression, with consistent by-name tables, exactly the named
    attributes, all types kept; malformed expressions, unknown namespaces and unknown
    attributes end in a non-zero exit"""
    params = {'args': AnyVal(), 'api': AnyVal(), 'debug': Lit(False)}

    def snapshot(args, api, debug):
        return (CG.snapshot(args, api, debug),)

    def ensures(args, api, debug, result, exc, old):
        return CG.check(args, api, exc, old[0])

    gen = staticmethod(CG.gen)
