"""Vacuity canary: a contract with a false postcondition.  Every check run
verifies it and fails (exit 3) unless the verifier refutes it."""
from pyvc.contract import contract, Ret, Raise, Obj, AnyVal
import stone.backends.python_rsrc.stone_validators as bv

M = 'stone.backends.python_rsrc.stone_validators:'


@contract(M + 'Void.has_default', canary=True)
class Canary_Void_has_default:
    params = {'self': Obj(bv.Void)}

    def expected(self):
        return Ret(False)          # wrong on purpose: the real method returns True
