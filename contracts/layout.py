"""C11 at the entry points, against the statement (BOUNDED stand-ins; the proved part is
ApiNamespace.normalize, contracts/normalize.py)."""
import io

from pyvc.contract import contract, AnyVal, Lit
from pyvc import slices
import spec.layout_gen as LG

_REF = {}


def _reference_signature():
    if 'sig' not in _REF:
        from stone.frontend.frontend import specs_to_ir
        _REF['sig'] = LG.signature(specs_to_ir(sorted(LG.BASE.items())))
    return _REF['sig']


@contract('stone.frontend.frontend:specs_to_ir#layout', properties=['C11'], bounded=True)
class specs_to_ir_layout:
    """C11: "the API description ... is unchanged by reordering spec files, reordering top-level definitions
    within a file, splitting a namespace's definitions over several files, adding or removing comments, blank
    lines and trailing whitespace": a canonical signature of the description (every listing in the order the
    description presents it) equals the signature of the reference layout"""
    params = {'specs': AnyVal()}

    def ensures(specs, result, exc):
        return exc is None and LG.signature(result) == _reference_signature()

    @staticmethod
    def gen(rng):
        return {'specs': {'k': 'call', 'fn': 'spec.layout_gen:build_variant', 'args': [LG.variant(rng)]}}


# ---------------------------------------------------------------- standard input instead of files

slices.register(
    'stone.cli:main@read_stdin',
    ranges=[('if not args.spec or read_from_stdin:', 'if not args.spec or read_from_stdin:')],
    params=['args', 'read_from_stdin', 'debug', 'specs'],
    drops='everything of main() but the statement that reads the specs from standard input; its result is the '
          'local `specs`, returned through the parameter list object (the statement rebinds it: the slice is '
          'wrapped to return the local)',
    returns='specs')


class _Args:
    spec = None


def build_stdin_args():
    return _Args()


@contract('stone.cli:main@read_stdin', properties=['C11'], bounded=True, stdin=True)
class read_stdin:
    """C11: "... or feeding the same specs through standard input instead of files": the specs read from the
    concatenated text compile to the same description as the files"""
    params = {'args': AnyVal(), 'read_from_stdin': Lit(True), 'debug': Lit(False), 'specs': AnyVal()}

    def ensures(args, read_from_stdin, debug, specs, result, exc):
        if exc is not None:
            return False
        from stone.frontend.frontend import specs_to_ir
        from stone.frontend.exception import InvalidSpec
        try:
            return LG.signature(specs_to_ir(result)) == _reference_signature()
        except InvalidSpec:
            return False        # text that compiles from files must compile from standard input

    @staticmethod
    def gen(rng):
        return {'args': {'k': 'call', 'fn': 'contracts.layout:build_stdin_args', 'args': []},
                'read_from_stdin': {'k': 'bool', 'v': True}, 'debug': {'k': 'bool', 'v': False},
                'specs': {'k': 'call', 'fn': 'spec.layout_gen:stdin_text', 'args': [LG.variant(rng)]}}
