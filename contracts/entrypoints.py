"""Entry points of the Python serializer runtime, checked end to end against the property
statements themselves (C06 result validity; C04 round trip).  BOUNDED stand-ins: these functions
construct the encoder / decoder objects and run the whole recursive machinery; what is proved
are the methods they call (contracts/serializers.py)."""
from pyvc.contract import contract, AnyVal, Lit, OneOf
import spec.runtime as S
import spec.gen as G
import stone.backends.python_rsrc.stone_validators as bv
import stone.backends.python_rsrc.stone_serializers as ss

M = 'stone.backends.python_rsrc.stone_serializers:'


def _omit_case(rng):
    """a valid struct document with one key removed (the must-reject clause for required fields)"""
    import spec.corpus as corpus
    from pyvc import native as N
    corpus.load()
    t = rng.choice([v for v in G.corpus_validators((bv.Struct,)) if not isinstance(v, bv.StructTree)])
    for _ in range(30):
        v = G.gen_gvalue(rng, t)
        try:
            if S.enc_pre(t, v) and S.enc_ok(t, v):
                j = dict(S.enc_val(t, v))
                break
        except Exception:
            continue
    else:
        return None
    names = [f[0] for f in t.definition._all_fields_ if f[0] in j]
    if names:
        del j[rng.choice(names)]
    return {'data_type': N.describe(t), 'obj': G.desc_value2(j)}


def k5_only(data_type, obj, strict):
    """the mismatch is exactly known finding K-C06-structdefault: apart from filling in the omitted
    struct-typed required fields the decoder did its job (valid result)"""
    if not (S.omits_required_field(data_type, obj) and S.omitted_required_are_defaultable_structs(data_type, obj)):
        return False
    try:
        r = ss.json_compat_obj_decode(data_type, obj, None, None, strict)
    except Exception:
        return False
    return bool(S.valid(data_type, r))


def _decode_entry_case(rng):
    d = None
    if rng.random() < 0.25:
        d = _omit_case(rng)
    if d is None:
        d = G.decode_case()(rng)
    return {'data_type': d['data_type'], 'obj': d['obj'], 'caller_permissions': {'k': 'none'},
            'alias_validators': {'k': 'none'}, 'strict': {'k': 'bool', 'v': rng.random() < 0.5}}


@contract(M + 'json_compat_obj_decode', properties=['C06'], bounded=True)
class json_compat_obj_decode:
    """C06: "the decoder either returns a value that is valid for the type or raises its
    validation error; no other exception escapes" -- at the JSON-object entry point"""
    params = {'data_type': AnyVal(), 'obj': AnyVal(), 'caller_permissions': Lit(None), 'alias_validators': Lit(None),
              'strict': OneOf(Lit(True), Lit(False))}

    def requires(data_type, obj, caller_permissions, alias_validators, strict):
        return S.wf(data_type) and S.json_deep(obj)

    def ensures(data_type, obj, caller_permissions, alias_validators, strict, result, exc):
        if exc is not None:
            return exc is bv.ValidationError
        if S.omits_required_field(data_type, obj):
            return False
        return S.valid(data_type, result)

    gen = staticmethod(_decode_entry_case)


# ---------------------------------------------------------------- C04: round trip through the entry points

def _empty_struct(x):
    import stone.backends.python_rsrc.stone_base as bb
    return isinstance(x, bb.Struct) and all(getattr(x, '_%s_value' % n) is bb.NOT_SET for n, _ in type(x)._all_fields_)


def _k1_member(u):
    """a union value whose member type is a nullable struct and whose value is a struct with no field set:
    its encoding is tag-only, which is also the encoding of null (known finding K-C04-empty-nullable-member)"""
    tv = type(u)._tagmap.get(u._tag)
    return (isinstance(tv, bv.Nullable) and isinstance(tv.validator, bv.Struct)
            and not isinstance(tv.validator, bv.StructTree) and _empty_struct(u._value))


def has_k1(v):
    import stone.backends.python_rsrc.stone_base as bb
    if isinstance(v, (list, tuple)):
        return any(has_k1(x) for x in v)
    if isinstance(v, dict):
        return any(has_k1(x) for x in v.values())
    if isinstance(v, bb.Struct):
        return any(has_k1(getattr(v, '_%s_value' % n)) for n, _ in type(v)._all_fields_)
    if isinstance(v, bb.Union):
        return _k1_member(v) or has_k1(v._value)
    return False


def _values_equal(a, b, k1=False):
    """equality of values up to the validators' own normalisation (a tuple is accepted where a list is
    declared and stored as a list; an unset field and its slot default are the same state): same class,
    same tag, same fields, element by element"""
    import stone.backends.python_rsrc.stone_base as bb
    if isinstance(a, (list, tuple)) and isinstance(b, (list, tuple)):
        return len(a) == len(b) and all(_values_equal(x, y, k1) for x, y in zip(a, b))
    if isinstance(a, dict) and isinstance(b, dict):
        return set(a) == set(b) and all(_values_equal(a[k], b[k], k1) for k in a)
    if isinstance(a, bb.Struct) or isinstance(b, bb.Struct):
        if type(a) is not type(b):
            return False
        return all(_values_equal(getattr(a, '_%s_value' % n), getattr(b, '_%s_value' % n), k1)
                   for n, _ in type(a)._all_fields_)
    if isinstance(a, bb.Union) or isinstance(b, bb.Union):
        if type(a) is not type(b) or a._tag != b._tag:
            return False
        if k1 and ((_k1_member(a) and b._value is None) or (_k1_member(b) and a._value is None)):
            return True
        return _values_equal(a._value, b._value, k1)
    if a is bb.NOT_SET or b is bb.NOT_SET:
        return a is b
    if isinstance(a, bool) != isinstance(b, bool):
        return a == b          # a bool is an integer for the Integer validators (C08 interpretation)
    if isinstance(a, (int, float)) and isinstance(b, (int, float)):
        if isinstance(a, float) or isinstance(b, float):
            # a Float validator stores float(v): an int given for a Float field is compared after that conversion
            try:
                return float(a) == float(b)
            except OverflowError:
                return False
        return a == b
    return type(a) is type(b) and a == b


def _fields_in_domain(cls, v):
    import stone.backends.python_rsrc.stone_base as bb
    for name, fv in cls._all_fields_:
        x = getattr(v, '_%s_value' % name)
        if x is bb.NOT_SET or x is None:
            continue
        if not rt_domain(fv, x):
            return False
    return True


def rt_domain(t, v):
    """the values the round trip is stated for (native only).  Two exclusions, both forced by other
    properties: an instance of a *subclass* in a plain struct position (encoded as the declared
    type: C05) and the catch-all tag of an open union (naming it is refused: C06)."""
    if isinstance(t, bv.Nullable):
        return v is None or rt_domain(t.validator, v)
    if isinstance(t, bv.List):
        return all(rt_domain(t.item_validator, x) for x in v)
    if isinstance(t, bv.Map):
        return all(rt_domain(t.value_validator, x) for x in v.values())
    if isinstance(t, bv.StructTree):
        if type(v) not in t.definition._pytype_to_tag_and_subtype_:
            return False
        sub = t.definition._pytype_to_tag_and_subtype_[type(v)][1]
        if isinstance(sub, bv.StructTree):
            return False
        return _fields_in_domain(type(v), v)
    if isinstance(t, bv.Struct):
        return type(v) is t.definition and _fields_in_domain(type(v), v)
    if isinstance(t, bv.Union):
        if type(v) is not t.definition or v._tag == t.definition._catch_all:
            return False
        tv = t.definition._tagmap[v._tag]
        if isinstance(tv, bv.Void):
            return v._value is None          # the only valid value of a void member
        return v._value is None or rt_domain(tv, v._value)
    if isinstance(t, bv.Real):
        # normal form: what the field setter / validator stores for a Float type is float(v)
        return isinstance(v, float)
    if isinstance(t, bv.Timestamp):
        # "timestamps representable in their format" (property text): the library pair strftime/strptime
        # is the identity on them
        import datetime
        try:
            return datetime.datetime.strptime(v.strftime(t.format), t.format) == v
        except Exception:
            return False
    return True


def _encode_entry_case(rng):
    d = G.encode_case()(rng)
    return {'data_type': d['validator'], 'obj': d['value'], 'caller_permissions': {'k': 'none'},
            'alias_validators': {'k': 'none'}}


def k1_only(data_type, obj):
    """the mismatch is exactly known finding K-C04-empty-nullable-member: apart from reading such members
    back as null the round trip is the identity"""
    if not has_k1(obj):
        return False
    try:
        return round_trips(data_type, obj, ss.json_compat_obj_encode(data_type, obj), k1=True)
    except Exception:
        return False


def round_trips(data_type, obj, j, k1=False):
    """decoding j (what encoding obj produced) yields an equal value, strict and lenient, through the
    object and the string entry points, and encoding that value yields j again"""
    import json
    for strict in (True, False):
        r = ss.json_compat_obj_decode(data_type, j, None, None, strict)
        if not _values_equal(r, obj, k1):
            return False
        if ss.json_compat_obj_encode(data_type, r) != j:
            return False
        text = ss.json_encode(data_type, obj)
        if json.loads(text) != j:
            return False
        r2 = ss.json_decode(data_type, text, None, None, strict)
        if not _values_equal(r2, obj, k1):
            return False
    return True


@contract(M + 'json_compat_obj_encode', properties=['C04'], bounded=True)
class json_compat_obj_encode:
    """C04: "decoding the JSON produced by encoding the value yields an equal value, and encoding that
    result yields the same JSON again", strict and lenient, object and string entry points"""
    params = {'data_type': AnyVal(), 'obj': AnyVal(), 'caller_permissions': Lit(None), 'alias_validators': Lit(None)}

    def requires(data_type, obj, caller_permissions, alias_validators):
        # deep validity: S.valid is the shallow predicate of the validators; S.enc_ok adds validity of every
        # stored field value (it is the acceptance condition the encoder is proved against under C05)
        return (S.wf(data_type) and S.enc_pre(data_type, obj) and S.valid(data_type, obj) and S.enc_ok(data_type, obj)
                and rt_domain(data_type, obj))

    def ensures(data_type, obj, caller_permissions, alias_validators, result, exc):
        return exc is None and round_trips(data_type, obj, result)

    gen = staticmethod(_encode_entry_case)


# ---------------------------------------------------------------- C13: omitted fields and redaction at the string entry points

import spec.c13_gen as C13


@contract(M + 'json_encode', properties=['C13'], bounded=True)
class json_encode:
    """C13: "a field or tag annotated as omitted for caller class c is absent from every encoding produced
    for a caller without permission c ... and is present for callers holding c.  When redaction is
    requested, the clear-text value of every field carrying a redactor, directly or through an alias,
    including list items and map values at any nesting depth, never appears in the output" """
    params = {'data_type': AnyVal(), 'obj': AnyVal(), 'caller_permissions': AnyVal(), 'alias_validators': Lit(None),
              'old_style': Lit(False), 'should_redact': OneOf(Lit(True), Lit(False))}

    def ensures(data_type, obj, caller_permissions, alias_validators, old_style, should_redact, result, exc):
        return C13.check_json_encode(data_type, obj, caller_permissions, should_redact, result, exc)

    @staticmethod
    def gen(rng):
        d = C13.gen_encode(rng)
        d['alias_validators'] = {'k': 'none'}
        d['old_style'] = {'k': 'bool', 'v': False}
        return d


@contract(M + 'json_decode', properties=['C13'], bounded=True)
class json_decode:
    """C13: an omitted field or tag "cannot be supplied by such a caller when decoding in strict mode";
    a caller holding the permission can supply it and gets it back"""
    params = {'data_type': AnyVal(), 'serialized_obj': AnyVal(), 'caller_permissions': AnyVal()}

    def ensures(data_type, serialized_obj, caller_permissions, result, exc):
        return C13.check_json_decode(data_type, serialized_obj, caller_permissions, result, exc)

    gen = staticmethod(C13.gen_decode)
