"""C20 (route whitelist closure) at the entry point, against the statement (BOUNDED stand-in; the proved
part of this property is ApiNamespace.add_route, which the filter uses to rebuild the route tables)."""
from pyvc.contract import contract, AnyVal, Lit
import spec.whitelist_gen as WG
import stone.ir.api as api


@contract('stone.frontend.frontend:specs_to_ir#whitelist', properties=['C20'], bounded=True)
class specs_to_ir_whitelist:
    params = {'specs': AnyVal(), 'version': Lit('0.1b1'), 'debug': Lit(False), 'route_whitelist_filter': AnyVal()}

    def ensures(specs, version, debug, route_whitelist_filter, result, exc):
        if exc is not None:
            return False
        problems = []
        if not WG.check(route_whitelist_filter, result, problems):
            return False
        # every fourth whitelist (by content): the python_types output of the filtered description imports
        import json
        if sum(map(ord, json.dumps(route_whitelist_filter, sort_keys=True))) % 4 == 0:
            return WG.generated_code_loads(result)
        return True

    @staticmethod
    def gen(rng):
        call = lambda fn, *a: {'k': 'call', 'fn': fn, 'args': list(a)}
        return {'specs': call('spec.whitelist_gen:build_specs'), 'version': {'k': 'str', 'v': '0.1b1'},
                'debug': {'k': 'bool', 'v': False},
                'route_whitelist_filter': call('spec.whitelist_gen:build_whitelist', WG.gen_whitelist(rng))}
