"""ApiNamespace.normalize (C11): every listing of a namespace is put into an order that does not depend on the
order of declaration -- the step that makes the description independent of definition and file order."""
from pyvc.contract import contract, Ret, Raise, Obj, AnyVal
import spec.order as SO
import stone.ir.api as api


def _lists_ok(ns):
    return (isinstance(ns.routes, list) and isinstance(ns.data_types, list) and isinstance(ns.aliases, list)
            and isinstance(ns.annotations, list) and isinstance(ns.annotation_types, list))


def _gen(rng):
    import spec.layout_gen as LG
    return {'self': {'k': 'call', 'fn': 'spec.layout_gen:build_unnormalized_namespace', 'args': [rng.randrange(10 ** 6)]}}


@contract('stone.ir.api:ApiNamespace.normalize', properties=['C11', 'C12', 'C02'])
class normalize:
    """routes by their own order (name, version); data types, aliases, annotations and annotation types by name;
    each listing keeps exactly its elements"""
    params = {'self': Obj(api.ApiNamespace)}

    def requires(self):
        return _lists_ok(self)

    def snapshot(self):
        return (self.routes, self.data_types, self.aliases, self.annotations, self.annotation_types)

    def ensures(self, result, exc, old):
        return (exc is None
                and SO.sorted_by(self.routes, None) and SO.permutation_of(self.routes, old[0])
                and SO.sorted_by(self.data_types, 'name') and SO.permutation_of(self.data_types, old[1])
                and SO.sorted_by(self.aliases, 'name') and SO.permutation_of(self.aliases, old[2])
                and SO.sorted_by(self.annotations, 'name') and SO.permutation_of(self.annotations, old[3])
                and SO.sorted_by(self.annotation_types, 'name') and SO.permutation_of(self.annotation_types, old[4]))

    gen = staticmethod(_gen)


# --------------------------------------------------------------------------------------------------
# The routes' "own order", which normalize sorts by: alphabetical by name, then by version (C02:
# "routes ... are alphabetical"; C11 / C12: the order does not depend on declaration order or identity)

def _route_shape(r):
    return not isinstance(r, api.ApiRoute) or (isinstance(r.name, str) and isinstance(r.version, int)
                                                and not isinstance(r.version, bool))


def _before(l, r):
    return l.name < r.name or (l.name == r.name and l.version < r.version)


def _route_gen(rng):
    from pyvc import native as N

    def route():
        r = api.ApiRoute(rng.choice(['get', 'put', 'a', 'zz', 'Get']), rng.choice([1, 1, 2, 3]), None)
        return r
    pick = lambda: N.describe(rng.choice([route(), route(), route(), None, 3, 'get']))
    return {'self': N.describe(route()), 'lhs': pick(), 'rhs': pick()}


@contract('stone.ir.api:ApiRoute._compare', properties=['C02', 'C11', 'C12'], raises=[TypeError])
class ApiRoute_compare:
    """-1 / 0 / 1 by (name, version), names first; anything that is not a route is refused with TypeError"""
    params = {'self': Obj(api.ApiRoute), 'lhs': AnyVal(), 'rhs': AnyVal()}

    def requires(self, lhs, rhs):
        return _route_shape(lhs) and _route_shape(rhs)

    def expected(self, lhs, rhs):
        if not isinstance(lhs, api.ApiRoute) or not isinstance(rhs, api.ApiRoute):
            return Raise(TypeError)
        if _before(lhs, rhs):
            return Ret(-1)
        if _before(rhs, lhs):
            return Ret(1)
        return Ret(0)

    gen = staticmethod(_route_gen)


@contract('stone.ir.api:ApiRoute.__lt__', properties=['C02', 'C11', 'C12'], raises=[TypeError])
class ApiRoute_lt:
    """what list.sort() asks of two routes (normalize: `self.routes.sort()`): strictly before by (name, version);
    modular over the contract of _compare"""
    params = {'self': Obj(api.ApiRoute), 'other': AnyVal()}

    def requires(self, other):
        return _route_shape(self) and _route_shape(other)

    def expected(self, other):
        if not isinstance(other, api.ApiRoute):
            return Raise(TypeError)
        return Ret(_before(self, other))

    def gen(rng):
        d = _route_gen(rng)
        return {'self': d['self'], 'other': d['rhs']}
