"""ApiNamespace.normalize (C11): every listing of a namespace is put into an order that does not depend on the
order of declaration -- the step that makes the description independent of definition and file order."""
from pyvc.contract import contract, Ret, Obj
import spec.order as SO
import stone.ir.api as api


def _lists_ok(ns):
    return (isinstance(ns.routes, list) and isinstance(ns.data_types, list) and isinstance(ns.aliases, list)
            and isinstance(ns.annotations, list) and isinstance(ns.annotation_types, list))


def _gen(rng):
    import spec.layout_gen as LG
    return {'self': {'k': 'call', 'fn': 'spec.layout_gen:build_unnormalized_namespace', 'args': [rng.randrange(10 ** 6)]}}


@contract('stone.ir.api:ApiNamespace.normalize', properties=['C11', 'C12', 'C02'])
class normalize:
    """routes by their own order (name, version); data types, aliases, annotations and annotation types by name;
    each listing keeps exactly its elements"""
    params = {'self': Obj(api.ApiNamespace)}

    def requires(self):
        return _lists_ok(self)

    def snapshot(self):
        return (self.routes, self.data_types, self.aliases, self.annotations, self.annotation_types)

    def ensures(self, result, exc, old):
        return (exc is None
                and SO.sorted_by(self.routes, None) and SO.permutation_of(self.routes, old[0])
                and SO.sorted_by(self.data_types, 'name') and SO.permutation_of(self.data_types, old[1])
                and SO.sorted_by(self.aliases, 'name') and SO.permutation_of(self.aliases, old[2])
                and SO.sorted_by(self.annotations, 'name') and SO.permutation_of(self.annotations, old[3])
                and SO.sorted_by(self.annotation_types, 'name') and SO.permutation_of(self.annotation_types, old[4]))

    gen = staticmethod(_gen)
