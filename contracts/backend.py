"""Contracts for the output-path handling of stone/backend.py (C18: containment and manifest mode)."""
from pyvc.contract import contract, Ret, Raise, Obj, AnyVal, Lit, OneOf, Str
import os
import spec.backend as SB
import stone.backend as sb

M = 'stone.backend:'

NAMES = ['a', 'b.py', 'é', 'out', 'sub', '..x', '...', 'x..']


def _rand_rel(rng):
    n = rng.randrange(1, 5)
    parts = [rng.choice(NAMES + ['.', '..', '..', '']) for _ in range(n)]
    p = '/'.join(parts)
    r = rng.random()
    if r < 0.12:
        p = '/' + p
    elif r < 0.2:
        p = p + '/'
    return p or '.'


def _gen_rel(rng):
    root = rng.choice(['out', 'out/', './out', '/tmp/verif_c18_root', 'a/../out', '.', '/'])
    path = _rand_rel(rng)
    if rng.random() < 0.5:
        path = os.path.join(root, path)
    if rng.random() < 0.12:
        path = os.path.join(root, _sibling(rng, root))
    return {'output_root': {'k': 'str', 'v': root}, 'output_path': {'k': 'str', 'v': path}}


@contract(M + '_relative_output_path', properties=['C18'], raises=[AssertionError])
class relative_output_path:
    """refuses exactly the paths that leave the output root"""
    params = {'output_root': Str(), 'output_path': Str()}

    def expected(output_root, output_path):
        if SB.inside(output_root, output_path):
            return Ret(SB.manifest_name(output_root, output_path))
        return Raise(AssertionError)

    gen = staticmethod(_gen_rel)


# ---------------------------------------------------------------- Backend methods

import logging
import os
BACKEND = Obj(sb.Backend)
EXISTING_DIRS = [os.path.abspath('out/existing'), '/tmp/verif_c18_root/existing']


def _backend_ok(self):
    return (isinstance(self.target_folder_path, str)
            and (self.output_manifest is None or isinstance(self.output_manifest, sb.OutputManifest)))


def _gen_backend(rng):
    root = rng.choice(['out', './out', '/tmp/verif_c18_root', 'a/../out'])
    return root, {'k': 'call', 'fn': 'spec.backend_gen:build_backend', 'args': [root, rng.random() < 0.5]}


def _sibling(rng, root):
    """a path next to the root whose name extends the root's name (string prefix, different component)"""
    base = os.path.basename(os.path.normpath(root)) or 'root'
    return '../' + base + rng.choice(['2', 'er.txt', '.bak', '-sibling/z.txt', '2/w.txt'])


def _gen_path_under(rng, root):
    p = _rand_rel(rng)
    r = rng.random()
    if r < 0.12:
        return os.path.join(root, _sibling(rng, root))
    if r < 0.6:
        return os.path.join(root, p)
    if r < 0.75:
        return os.path.join(root, 'existing')
    return p


@contract(M + 'OutputManifest.add_output', properties=['C18'], raises=[AssertionError], bounded=True)
class add_output:
    """ASSUMED at call sites, BOUNDED stand-in (set mutation through a heap attribute is outside the VC
    generator): records the manifest name of the path iff it is inside the root, refuses it otherwise"""
    params = {'self': Obj(sb.OutputManifest), 'output_root': Str(), 'output_path': Str()}

    def expected(self, output_root, output_path):
        if SB.inside(output_root, output_path):
            return Ret(None)
        return Raise(AssertionError)

    def snapshot(self, output_root, output_path):
        return (set(self._outputs),)

    def ensures(self, output_root, output_path, result, exc, old):
        if exc is not None:
            return self._outputs == old[0]
        return self._outputs == old[0] | {SB.manifest_name(output_root, output_path)}

    @staticmethod
    def gen(rng):
        d = _gen_rel(rng)
        return {'self': {'k': 'call', 'fn': 'spec.backend_gen:build_manifest', 'args': [rng.choice([[], ['a'], ['a', 'sub/b.py']])]},
                'output_root': d['output_root'], 'output_path': d['output_path']}


@contract(M + 'Backend._validate_output_path', properties=['C18'], raises=[AssertionError])
class validate_output_path:
    params = {'self': BACKEND, 'output_path': Str()}

    def requires(self, output_path):
        return _backend_ok(self)

    def expected(self, output_path):
        if SB.inside(self.target_folder_path, output_path):
            return Ret(None)
        return Raise(AssertionError)

    @staticmethod
    def gen(rng):
        root, b = _gen_backend(rng)
        return {'self': b, 'output_path': {'k': 'str', 'v': _gen_path_under(rng, root)}}


@contract(M + 'Backend._record_output_path', properties=['C18'], raises=[AssertionError])
class record_output_path:
    """manifest mode: the path is recorded (or refused) and True tells the caller not to write"""
    params = {'self': BACKEND, 'output_path': Str()}

    def requires(self, output_path):
        return _backend_ok(self)

    def expected(self, output_path):
        if self.output_manifest is None:
            return Ret(False)
        if SB.inside(self.target_folder_path, output_path):
            return Ret(True)
        return Raise(AssertionError)

    @staticmethod
    def gen(rng):
        root, b = _gen_backend(rng)
        return {'self': b, 'output_path': {'k': 'str', 'v': _gen_path_under(rng, root)}}


@contract(M + 'Backend.copy_to_path', properties=['C18'], raises=[AssertionError], effects=EXISTING_DIRS)
class copy_to_path:
    """C18: "the file lands inside the output folder or the request is refused before anything is written";
    "a manifest run ... creates no file itself" """
    params = {'self': BACKEND, 'src': Str(), 'dst': Str()}

    def requires(self, src, dst):
        return _backend_ok(self)

    def ensures(self, src, dst, result, exc):
        effects = SB.fs_effects()
        landing = os.path.join(dst, os.path.basename(src)) if os.path.isdir(dst) else dst
        if not SB.inside(self.target_folder_path, landing):
            return exc is AssertionError and len(effects) == 0
        if self.output_manifest is not None:
            return exc is None and len(effects) == 0 and result == landing
        return exc is None and len(effects) == 1 and effects[0][0] == 'copy' and effects[0][1] == dst

    @staticmethod
    def gen(rng):
        root, b = _gen_backend(rng)
        return {'self': b, 'src': {'k': 'str', 'v': rng.choice(['tmpl/a.txt', '/abs/b.py', 'c'])},
                'dst': {'k': 'str', 'v': _gen_path_under(rng, root)}}



@contract(M + 'Backend.output_to_relative_path', properties=['C18'], raises=[AssertionError, UnicodeEncodeError],
          effects=EXISTING_DIRS, contextmanager=True, yield_frame=['target_folder_path', 'output_manifest'])
class output_to_relative_path:
    """C18, for the context manager every backend writes its files through: every file-system effect is on
    join(root, relative_path) (or the creation of its directory) and that path is inside the root, or the
    request is refused before any effect; a manifest run has no file-system effect at all.  The with-body
    (arbitrary backend code) may change every attribute of the backend except its target folder and manifest
    (`yield_frame`: stated assumption)."""
    params = {'self': BACKEND, 'relative_path': Str(), 'mode': Lit('wb')}

    def requires(self, relative_path, mode):
        return _backend_ok(self)

    def ensures(self, relative_path, mode, result, exc):
        effects = SB.fs_effects()
        full = os.path.join(self.target_folder_path, relative_path)
        if not SB.inside(self.target_folder_path, full):
            return exc is AssertionError and len(effects) == 0
        if self.output_manifest is not None:
            return exc is None and len(effects) == 0
        # the only way to fail after validation: the emitted text has no UTF-8 encoding (the file was
        # created inside the root, nothing written)
        if exc is not None and exc is not UnicodeEncodeError:
            return False
        tail = [('open', full)] if exc is UnicodeEncodeError else [('open', full), ('write', full)]
        if os.path.exists(os.path.dirname(full)):
            want = tail
        else:
            want = [('makedirs', os.path.dirname(full))] + tail
        return len(effects) == len(want) and all(effects[i][0] == want[i][0] and effects[i][1] == want[i][1]
                                                 for i in range(len(want)))

    @staticmethod
    def gen(rng):
        root, b = _gen_backend(rng)
        rel = _sibling(rng, root) if rng.random() < 0.12 else _rand_rel(rng)
        return {'self': b, 'relative_path': {'k': 'str', 'v': rel}, 'mode': {'k': 'str', 'v': 'wb'}}


# ---------------------------------------------------------------- verbatim emission (bounded: string contents are opaque to the VC generator)

import spec.backend_gen as BG


def _gen_emit_state(rng):
    emitted = [rng.choice(BG.TEXTS) for _ in range(rng.randrange(0, 3))]
    return {'k': 'call', 'fn': 'spec.backend_gen:build_backend_state',
            'args': ['out', rng.choice([0, 0, 4, 8, 3]), emitted, rng.randrange(1000)]}


@contract(M + 'Backend.emit_raw', properties=['C18'], bounded=True)
class emit_raw:
    """C18: "raw text emitted through the backend interface reaches the file byte for byte ..., including braces
    and format-like sequences": the rendered buffer grows by exactly s (BOUNDED stand-in)"""
    params = {'self': BACKEND, 's': Str()}

    def requires(self, s):
        return s.endswith('\n')

    def snapshot(self, s):
        return (self.output_buffer_to_string(),)

    def ensures(self, s, result, exc, old):
        return exc is None and self.output_buffer_to_string() == old[0] + s

    @staticmethod
    def gen(rng):
        return {'self': _gen_emit_state(rng),
                's': {'k': 'str', 'v': ''.join(rng.choice(BG.TEXTS + ['\n']) for _ in range(rng.randrange(0, 4))) + '\n'}}


@contract(M + 'Backend.emit', properties=['C18'], bounded=True)
class emit:
    """a line: the indentation of the enclosing contexts, the text verbatim, a newline; the empty line has no
    indentation (BOUNDED stand-in)"""
    params = {'self': BACKEND, 's': Str()}

    def requires(self, s):
        return '\n' not in s

    def snapshot(self, s):
        return (self.output_buffer_to_string(),)

    def ensures(self, s, result, exc, old):
        line = (' ' * self.cur_indent + s + '\n') if s else '\n'
        return exc is None and self.output_buffer_to_string() == old[0] + line

    @staticmethod
    def gen(rng):
        return {'self': _gen_emit_state(rng), 's': {'k': 'str', 'v': rng.choice(BG.TEXTS).replace('\n', ' ')}}


@contract(M + 'Backend.emit_wrapped_text', properties=['C18'], bounded=True)
class emit_wrapped_text:
    """wrapped text keeps every word in order; every produced line starts with the indentation and the
    prefix (BOUNDED stand-in)"""
    params = {'self': BACKEND, 's': Str(), 'prefix': Str(), 'initial_prefix': Lit(''), 'subsequent_prefix': Lit(''),
              'width': AnyVal()}

    def requires(self, s, prefix, initial_prefix, subsequent_prefix, width):
        return '\n' not in prefix and s.split() != []

    def snapshot(self, s, prefix, initial_prefix, subsequent_prefix, width):
        return (self.output_buffer_to_string(),)

    def ensures(self, s, prefix, initial_prefix, subsequent_prefix, width, result, exc, old):
        new = self.output_buffer_to_string()
        if exc is not None or not new.startswith(old[0]) or not new.endswith('\n'):
            return False
        lines = new[len(old[0]):-1].split('\n')
        lead = ' ' * self.cur_indent + prefix
        if not all(l.startswith(lead) for l in lines):
            return False
        return ' '.join(l[len(lead):] for l in lines).split() == s.split()

    @staticmethod
    def gen(rng):
        words = [rng.choice(['alpha', 'b', '{x}', 'co-op', 'é', '}', 'x' * 30, '{0}']) for _ in range(rng.randrange(1, 25))]
        return {'self': _gen_emit_state(rng), 's': {'k': 'str', 'v': rng.choice([' ', '  ']).join(words)},
                'prefix': {'k': 'str', 'v': rng.choice(['', '# ', '// ', '{'])},
                'initial_prefix': {'k': 'str', 'v': ''}, 'subsequent_prefix': {'k': 'str', 'v': ''},
                'width': {'k': 'int', 'v': rng.choice([10, 20, 40, 80])}}


@contract(M + 'Backend.output_buffer_to_string', properties=['C18'], bounded=True)
class output_buffer_to_string:
    """C18: random emit scripts (emit / emit_raw / emit_wrapped_text / indent / placeholders with arbitrary text)
    against a reference pretty-printer: the rendered buffer is the verbatim text, indentation-prefixed, with
    placeholders replaced by their registered text (BOUNDED stand-in; at call sites the result is the
    uninterpreted S.rendered)"""
    params = {'self': BACKEND}

    def expected(self):
        return Ret(SB.rendered(self.output, self.positional_placeholders, self.named_placeholders))

    def ensures(self, result, exc):
        return exc is None and result == BG.reference_text(self._verif_script) and self._verif_text == result

    @staticmethod
    def gen(rng):
        return {'self': {'k': 'call', 'fn': 'spec.backend_gen:build_backend_script', 'args': [BG.gen_script(rng)]}}
