#!/usr/bin/env python3
"""Writes MANIFEST.json from the table below (kept in one place so the
manifest stays valid while properties move from not-yet-claimed to claimed)."""
import json, os
HERE = os.path.dirname(os.path.abspath(__file__))

CLAIMED = {
 'C08': {
  'text': 'Every validate method of stone_validators is proved, for all argument values of the closed-world '
          'universe and all well-formed validator parameters, to return exactly the documented normalisation when '
          'the value satisfies the declared type and to raise ValidationError (and nothing else) otherwise; '
          'obligations are generated from the AST of the current source and discharged by z3.',
  'note': 'Trusted: the PyVC translator (cross-checked natively on sampled inputs), the closed-world value universe, '
          'regex engine as uninterpreted predicate, termination. Bounded part: native oracle comparison on sampled inputs.',
  'design': '3 (C08)',
 },
}
CLAIMED['C10'] = {
  'text': 'Defaults: the compile-time literal check of every IR primitive type (check of Int32/UInt32/Int64/UInt64, Float32/Float64, '
          'String, Boolean, Bytes, Timestamp (strptime as axiom TS), Void, Nullable) is proved equal to the acceptance rule of the language reference, the constructors of the IR types are proved to establish the parameter invariants those checks and lemmas assume (min_value / max_value inside the range of the type, floats stored as doubles, lengths and item counts integral), and lemmas over these '
          'specifications and the (C08-proved) runtime validators show that an accepted literal is valid for the validator the '
          'python_types backend constructs for the type (Int, Float, String, Boolean proved for all parameters and literals; Bytes '
          'and Timestamp are listed known findings). Example computation is not under contract yet.',
  'note': 'Trusted: PyVC translator, closed-world value universe, regex engine as uninterpreted predicate (whole-string match '
          'defined as match of \\A(?:p)\\Z), the relation rt(P,T) between an IR type and the validator text emitted for it '
          '(generator not yet under contract), pprint/eval of literals (axiom PP). Bounded: native oracle comparison on sampled inputs.',
  'design': '3 (C10)',
}
CLAIMED['C05'] = {
  'text': 'Every encoder method of StoneToPythonPrimitiveSerializer / StoneSerializerBase (encode_sub, encode_list, encode_map, '
          'encode_nullable, encode_primitive, encode_struct, encode_struct_tree, encode_union) is proved, for every well-formed '
          'validator tree (including every generated struct / union class through the built-in table model) and every value in '
          'the encoder domain, to return exactly Enc(T, v) -- the specification function written from docs/json_serializer.rst -- '
          'or to raise ValidationError exactly when Enc is undefined; each method is checked against the contracts of the methods it calls.',
  'note': 'Scope of this revision: new-style JSON, caller without extra permissions, no redaction, no alias validators (ctx_ok). '
          'Trusted: PyVC translator; closed-world value universe; reflection tables of generated classes well formed (GEN-WF: built-in '
          'model pyvc/genmodel.py, evaluated natively on a corpus of generated classes); strftime/base64 as uninterpreted functions; '
          'lemma enc_val(Struct) is a dict used as axiom; termination. Bounded: native oracle comparison on generated values of the corpus.',
  'design': '3 (C05)',
}
CLAIMED['C06'] = {
  'text': 'Decoder, partly proved: make_stone_friendly (every primitive kind, strict and lenient, with and without validation), '
          'determine_struct_tree_subtype, decode_list, decode_map and decode_nullable are proved to return exactly the reference '
          'decoding or to raise ValidationError and nothing else, for every JSON value (this is where the TypeError / ValueError escapes '
          'were found and repaired). decode_struct, decode_struct_tree, decode_union_dict and the dispatching helper build heap objects '
          'and are NOT proved in this revision: they are compared with the reference decoder (SpecPy dec_ok / dec_val, written from '
          'json_serializer.rst and the accept/reject list of the property) on generated documents -- a bounded stand-in.',
  'note': 'Scope: new-style JSON, caller without extra permissions, no alias validators. Trusted: PyVC translator, closed-world JSON '
          'universe, strptime / b64decode as uninterpreted functions with their documented exception classes (axioms TS, B64), '
          'GEN-WF. Bounded (not proved): the four heap-building decoder functions on 600 generated documents each per run.',
  'design': '3 (C06)',
}
CLAIMED['C19'] = {
  'text': 'Route selection, partly proved: FilterExprPredicate.eval and FilterExprConjunction.eval are proved to compute the ordinary '
          'boolean value of the expression on every route (absent attribute = null, = / != by value), and ApiNamespace.add_route is '
          'proved to keep the by-name tables equal to the tables of the route list (the rebuild step of the filter). The statements of '
          'stone.cli:main that apply -f / -w / -b / -a are extracted mechanically from the current source (slice main@select_routes) and, '
          'as a BOUNDED stand-in, run on generated command lines against an independent reference (own expression reader with `and` over '
          '`or`, whole-API comparison of visible routes, by-name tables, attributes, route schema, kept types, error exits).',
  'note': 'Proved: the two eval methods and add_route (z3). Bounded, not proved: the slice of main() (ply-generated LALR parser and '
          'the 100-line pruning code with argparse state are outside the VC generator) on 600 generated command lines per quick run. '
          'Dropped by the extraction: everything of main() outside the two statement ranges (see evidence extraction_drops).',
  'design': '3 (C19)',
}
CLAIMED['C04'] = {
  'text': 'Round trip, partly proved: lemma C04.round_trip_primitive is proved (z3) over the specification functions Enc / Dec -- to which '
          'encode_primitive (C05) and make_stone_friendly (C06) are proved equal -- for every primitive validator, every valid value in '
          'normal form and both decoding modes, with the library pairs strftime/strptime and b64encode/b64decode as stated hypotheses. '
          'Everything composite (Nullable, List, Map, structs, enumerated subtypes, unions of unions) is NOT proved: the postcondition of '
          'json_compat_obj_encode taken from the property text (decode(encode(v)) equals v, re-encoding gives the same JSON, strict and '
          'lenient, object and string entry points) is checked on generated values of the compiled corpus -- a BOUNDED stand-in.',
  'note': 'Proved: 1 lemma (2 cases). Bounded, not proved: the entry-point round trip on 600 / 8000 generated values per run. Known finding '
          'K-C04-empty-nullable-member (a union member of nullable struct type holding a struct with no field set is read back as null) is '
          'reported as KNOWN-FINDING and excluded by its case predicate only. Domain exclusions forced by C05/C06 (subclass instance in a '
          'plain struct position, the catch-all tag) are stated in contracts/entrypoints.py: rt_domain.',
  'design': '7.3 (C04)',
}
CLAIMED['C13'] = {
  'text': 'Omission and redaction, partly proved: (1) StoneToPythonPrimitiveSerializer.encode_sub is proved (z3) to route, when redaction is '
          'requested, every value whose validator carries a redactor through the redactor -- item by item for lists, value by value for maps -- '
          'and never to the ordinary encoder (the hook cannot be bypassed at that level); (2) for a caller without extra permissions '
          'encode_struct / encode_union are proved to emit exactly the fields / tags of the public tables (C05 proofs, re-run under this id), '
          'and Union._is_tag_present / _get_val_data_type to consult only the public table. Everything that depends on a caller WITH '
          'permissions, on nested redaction, and on the decoder is NOT proved: the postconditions of json_encode / json_decode taken from the '
          'property text (omitted fields and tags absent without the permission and present with it; no clear text of a redacted position '
          'anywhere in the output; an omitted field cannot be supplied in strict mode) are checked on generated values of an annotated '
          'corpus (Omitted / RedactedBlot / RedactedHash on fields, tags, inherited fields, aliases, lists, maps, nesting <= 3) x every '
          'subset of the permissions x redaction on/off -- a BOUNDED stand-in.',
  'note': 'Proved: the redaction hook of encode_sub (35 paths) and the no-permission field/tag selection. Assumed: the bodies of '
          'HashRedactor.apply / BlotRedactor.apply (regex, md5, string joins: S.redact_apply is uninterpreted) and the placement of _redact / '
          'per-permission tables by the generator (checked only through the compiled corpus). Bounded, not proved: json_encode and json_decode '
          'on 600 / 8000 generated cases each per run.',
  'design': '7.3 (C13)',
}
CLAIMED['C18'] = {
  'text': 'Containment and manifest mode, proved (z3) for the primitives every backend writes through: _relative_output_path refuses exactly the '
          'paths outside the output root; Backend._validate_output_path / _record_output_path; Backend.copy_to_path and the context manager '
          'Backend.output_to_relative_path perform no file-system effect before the validation has passed, every effect (makedirs, open, write, '
          'copy) is on the validated path (or the directory of it), and in manifest mode there is no effect at all while the path is recorded. '
          'File-system calls are a ghost trace in the proofs (recorded, not performed); the with-body between enter and exit of the context '
          'manager is arbitrary (all attributes but the target folder and manifest are havocked at the yield). Verbatim emission (emit_raw, '
          'emit, emit_wrapped_text: the rendered buffer grows by exactly the text, indentation-prefixed, words kept in order) and '
          'OutputManifest.add_output are NOT proved (string contents and set mutation are opaque to the VC generator): step postconditions '
          'checked on generated texts -- BOUNDED stand-ins.',
  'note': 'Proved: 5 functions. Library assumption: axiom PATH (os.path.relpath of the absolute paths decides containment), validated natively '
          'on generated paths against an independent component-wise definition on every run; os.path.* are uninterpreted; symlinks are outside '
          'the model. Not covered: the Swift writer and whole-backend manifest fidelity (that every backend writes only through these '
          'primitives is not checked); block / generate_multiline_list / placeholders have no contract.',
  'design': '7.3 (C18)',
}
CLAIMED['C03'] = {
  'text': 'Only spec errors escape, partly proved: for the literal-check layer of the IR (check and __init__ of Int32/UInt32/Int64/UInt64, '
          'Float32/Float64, String, Boolean, Bytes, Void in stone/ir/data_types.py) the escape sets are proved (z3), as are those of Timestamp.__init__ / check, List.__init__, Map.__init__, Nullable.check and List._check_list_container: nothing but the documented '
          'ValueError / ParameterError that the caller converts can leave them, for every argument of the closed-world universe. The lexer, '
          'the LALR parser and the passes of ir_generator.py are NOT proved (outside the VC generator): the postcondition of specs_to_ir taken '
          'from the statement (returns an API description or raises InvalidSpec with a non-empty message, an integer line and one of the '
          'input paths) is checked on a valid multi-file spec subjected to 1-3 token-level edits (delete / duplicate / swap / replace a token, '
          'change a literal kind, shift indentation, truncate, splice) -- a BOUNDED stand-in.',
  'note': 'The bounded part found 28 distinct escape sites on the unchanged tree: 9 were repaired (fix: commits 4f1597e, 68f786a, 3666098, '
          '70f49c3, 1605d5a, 3e70595, de66bcd: unmatched parenthesis, end of input inside a definition, unrecoverable syntax error, misplaced contextual '
          'keyword, defaults of the wrong kind, non-integer List arguments -- that one also as the failed proof obligation List.__init__#post --, quote() asserting on user text), 19 in ir_generator.py / data_types.py / api.py are listed as known findings, each identified '
          'by exception type and raising function (contracts/frontend.py: escape_site) so that any other escape is still reported. '
          'Termination is not proved.',
  'design': '7.3 (C03)',
}
CLAIMED['C20'] = {
  'text': 'Whitelist closure, mostly bounded: proved (z3) is only ApiNamespace.add_route, with which the filter rebuilds the route tables '
          '(by-name tables = route list). The traversal itself (_find_dependencies_recursive: recursion over mutable sets / defaultdicts with '
          'doc-reference regexes) is NOT proved: the postcondition of specs_to_ir with a whitelist, taken from the statement, is checked on a '
          'two-namespace spec (aliases and alias chains, parents, enumerated subtypes, tag defaults, lists / maps / nullables, doc references '
          'to types, fields and routes incl. on value-less tags and on fields inherited across namespaces, cross-namespace references) x generated whitelists (subsets of routes incl. versions and *, subsets of '
          'data types) against a reference closure computed independently on the unfiltered description: every closure member retained, '
          'nothing outside it retained, no retained field / parent / subtype / alias target / route signature refers to a removed type, by-name '
          'tables agree, and (every fourth whitelist) the python_types output of the filtered description imports -- a BOUNDED stand-in.',
  'note': 'Found and fixed: aliases retained while their targets were removed (fix commit recorded as F-C20-1); the doc of a field inherited from a parent in another namespace was read in the child\'s namespace (KeyError; F-C20-2, fix d226852). Not covered: specs beyond the '
          'one scenario; other backends than python_types for the load check.',
  'design': '7.3 (C20)',
}
CLAIMED['C11'] = {
  'text': 'Order and layout independence, partly proved: ApiNamespace.normalize is proved (z3, with library axiom SORT for list.sort) to leave '
          'every listing of a namespace -- routes, data types, aliases, annotations, annotation types -- sorted by its key and a permutation of '
          'what it was: the step that makes the description independent of declaration order. That the resolution passes commute with file '
          'and definition order is NOT proved: the postcondition from the statement (a canonical signature of the description equals that of '
          'the reference layout) is checked on a three-namespace spec (incl. a struct that inherits across namespaces from a parent whose field types are local names of the parent\'s namespace) under generated layouts (file permutations, definition permutations, '
          'splitting a namespace over 2-4 files, comments, blank lines, trailing whitespace) and, through the mechanically extracted stdin '
          'block of cli.main (slice main@read_stdin), for the same text delivered on standard input -- BOUNDED stand-ins.',
  'note': 'Found and fixed: annotation_types not normalised (0646b04), stdin text split at every occurrence of the word namespace '
          '(F-C11-2). Not covered: continuation-line variants of parenthesised lists, backend output bytes (only the description is compared).',
  'design': '7.3 (C11)',
}
CLAIMED['C07'] = {
  'text': 'Compatible evolution, partly proved: determine_struct_tree_subtype is proved (z3) to read an unknown subtype as the base struct '
          'exactly when decoding leniently under a catch-all base and to refuse it otherwise; the encoders (C05) and the primitive / list / map / '
          'nullable decoders (C06) it composes are proved against Enc / Dec. The property itself -- a relation between two spec versions -- is '
          'NOT proved: two versions A, B of a spec (B = A + an optional and a defaulted field, fields in nested structs, two new tags of an open '
          'union, a Void tag given a type, a new subtype under a catch-all struct, tags added to an open union that extends an open union, a new route, an alias introduced for a field type) are '
          'compiled with the generator of the tree; every message encoded under B from generated values is decoded under A and compared with '
          'an independent A-view projection (unknown fields dropped, unknown tags -> other for the unions the spec text declares open, unknown subtypes -> base struct, payloads of tags A '
          'knows as Void ignored), strict decoding under A must refuse exactly the messages whose projection dropped something, and every '
          'message encoded under A must decode under B (strict and lenient) to a value that re-encodes to the same message -- BOUNDED stand-ins.',
  'note': 'Proved: determine_struct_tree_subtype (+ C05/C06 carriers). Bounded: json_compat_obj_decode under the two relations on 600 / 8000 '
          'generated messages each. One pair of spec versions; renaming of types is not exercised (names do not appear on the wire).',
  'design': '7.3 (C07)',
}
CLAIMED['C12'] = {
  'text': 'Deterministic generation, mostly bounded: proved (z3) are ApiNamespace.normalize (every listing of the description is sorted and a '
          'permutation of what it was: independent of insertion order, hence of what was compiled earlier) and the order it sorts routes by (ApiRoute._compare / __lt__: a function of name and version only, not of identity or hash). Byte-identity across processes is a '
          'relation between runs that no function contract states: Compiler.build is run in this process (hash seed 0) for the built-in backends '
          'python_types, python_type_stubs, python_client, js_types, js_client, tsd_types, tsd_client (template files supplied), swift_types, obj_c_types, obj_c_client, and js_client / python_client / tsd_client with several repeated -a flags, x three spec sets (one '
          'with unions and structs carrying several omitted callers and redactors) and its files are compared byte for byte with fresh processes '
          'under other hash seeds writing into other folders -- a BOUNDED stand-in, exhaustive over that grid in every run.',
  'note': 'Found and fixed: _permissioned_tagmaps emitted as the repr of a set (F-C12-1). Not covered: swift_client (refuses the route corpus), '
          '"after running another backend in the same process".',
  'design': '7.3 (C12)',
}
CLAIMED['C02'] = {
  'text': 'Faithful, closed image, partly proved: the by-name tables of a namespace are proved (z3) to be the tables of its listings '
          '(ApiNamespace.add_route, add_data_type, add_alias), ApiNamespace.normalize to leave every listing sorted by its key and a '
          'permutation of what it was, and the routes\' own order (ApiRoute._compare, __lt__) to be alphabetical by name, then by version. That the passes of ir_generator.py build a description faithful to the declarations is NOT proved: '
          'random API models (1-3 namespaces with imports, aliases and alias chains through lists / maps, structs with inheritance, open and '
          'closed unions with inheritance, primitive types with parameters, List / Map / Nullable nesting <= 3, defaults, docs, routes with '
          'versions, deprecation and attributes) are rendered to text with the definitions of each namespace in shuffled order, compiled, and '
          'the description is compared with the model field by field: exactly the declared names (alphabetical listings, by-name tables), field '
          'order / types / type arguments / nullability / defaults / docs, the implicit `other` of open unions, schema defaults of unspecified '
          'route attributes, inherited-and-required-first field listings, linearizations with parents and alias targets first -- a BOUNDED '
          'stand-in.',
  'note': 'Found and fixed: linearize_aliases ignored alias targets inside lists / maps / nullables (generated python raised NameError on '
          'import; F-C02-1). Not covered: examples, annotations and patches in the model; the text-level mutators of C03.',
  'design': '7.3 (C02)',
}
CLAIMED['C01'] = {
  'text': 'Accepts exactly the legal specs, partly proved: for the literal-check layer of the IR primitive types (check of the '
          'integer, float, string, boolean, bytes, timestamp and void types, Nullable.check, List._check_list_container) acceptance is proved (z3) equal to the rule of the language reference -- a '
          'default or attribute literal is accepted iff it fits the declared type and its arguments -- and for the type-argument layer (__init__ of the integer and float types, String, Timestamp, List, Map) '
          'a constructor call is proved to succeed iff the arguments are legal (integers inside the range of the type, real bounds representable as doubles, non-negative lengths / item counts with max >= min, '
          'a compilable pattern, a String key type) and to raise ParameterError, which the caller turns into the spec error, otherwise. The rest of the rule set lives in the '
          'parser and the passes of ir_generator.py, which are NOT proved: random API models are rendered to text and compiled either as they '
          'are (must be accepted) or with exactly one violation, from a catalogue of 28 rules of docs/lang_ref.rst, injected at a random '
          'applicable site (undefined / duplicate / clashing names, illegal inheritance incl. cycles and closed-over-open unions, Void fields, '
          'illegal type arguments and bounds, defaults that do not fit, missing / undefined imports, duplicate routes, unknown or ill-typed '
          'route attributes, alias cycles, doc references to unknown fields / types / routes / route versions and malformed doc references, also where the same docstring sits validly on another type): must raise the spec error; half of the models carry resolvable doc references that must not make a legal spec refused -- a BOUNDED stand-in.',
  'note': 'Found and fixed: a type / alias / annotation named like an earlier route crashed with AttributeError (F-C01-1); List(T, min_items=1.5) was accepted (failed obligation List.__init__#post, F-C01-2, fix 3e70595); a malformed :val: reference raised AssertionError (F-C01-3, fix de66bcd). The catalogue has 28 of '
          'the ~45 rules of the reference; syntax and indentation rules are exercised only through C03. Int32(min_value > max_value) is accepted by '
          'the compiler; the reference does not state that rule, so it is not in the catalogue.',
  'design': '7.3 (C01)',
}
NOT_YET = {
}
NA = {
 'C09': 'property of emitted Python source when imported; no contract on an emitting function can express the semantics of its output text',
 'C14': 'observable only by calling emitted client methods (semantics of emitted text); no carrier function within contract reach',
 'C15': 'agreement of two emitted texts under two target semantics (PEP 484 stub vs runtime module); no carrier function',
 'C16': 'well-formedness of emitted JavaScript/TypeScript text under the JS/TS grammars; outside any contract on the Python emitters',
 'C17': 'Swift/Obj-C output is produced by Jinja templates and ~4000 lines of emitters; lexical well-formedness of emitted text is not expressible as a function contract; jinja2 is not importable in the verifier interpreter',
}
PENDING_REASON = 'not claimed yet: contracts for the carrier functions of this property are not built in this revision (see DESIGN.md section 3 for the plan)'

def main():
    props = [json.loads(l) for l in open(os.path.join(HERE, 'properties.jsonl'))]
    checks = []
    na = []
    for p in props:
        pid = p['id']
        if pid in CLAIMED:
            c = CLAIMED[pid]
            checks.append({
                'property_id': pid,
                'quick_cmd': './check %s --tier quick' % pid,
                'thorough_cmd': './check %s --tier thorough' % pid,
                'evidence_file': 'evidence/%s.json' % pid,
                'replay_cmd_template': './check %s --replay {path}' % pid,
                'engine': 'pyvc',
                'level_claimed': {'category': 'proof', 'text': c['text'], 'design_ref': c['design']},
                'level_note': c['note'],
                'technique': 'contract-based deductive verification: sidecar contracts on the real functions, VCs generated from the '
                             'Python AST of the current source on every run and discharged by z3 (the `obligations` / `discharged` of the '
                             'evidence count only these); functions outside the VC generator carry a contract whose postcondition is taken '
                             'from the property statement and is compared natively on generated inputs against an independent reference -- '
                             'a bounded stand-in, labelled as such in level_claimed.text and in evidence.coverage.bounded_checks, never '
                             'counted as proved',
            })
        elif pid in NA:
            na.append({'property_id': pid, 'reason': NA[pid]})
        else:
            na.append({'property_id': pid, 'reason': NOT_YET.get(pid, PENDING_REASON)})
    man = {
        'version': 1,
        'setup_cmd': 'python3-vt -m compileall -q pyvc contracts spec checker.py >/dev/null && python3-vt -c "import z3; print(z3.get_version_string())"',
        'hooks': {'guard': 'STONE_VERIF', 'enable': 'no hooks: contracts are sidecar files under /verif/contracts, the repository sources are read unmodified',
                  'baseline_off_cmd': 'cd /repo && /venv/bin/python -m pytest -ra -q -p no:cacheprovider --timeout=900 --continue-on-collection-errors',
                  'source_commits': [], 'add_only': True},
        'engines': [{'name': 'pyvc', 'path': 'pyvc/', 'serves_properties': sorted(CLAIMED),
                     'kind_free_text': 'verification-condition generator for a Python subset (symbolic execution of the real AST, sidecar contracts, z3 back end) with native replay of counter-models'}],
        'checks': checks,
        'not_applicable': na,
        'notes': 'Exit codes of ./check: 0 held, 1 violation (VIOLATION line), 2 undecided, 3 checker fault. Known findings: known_findings.json.',
    }
    json.dump(man, open(os.path.join(HERE, 'MANIFEST.json'), 'w'), indent=1)

if __name__ == '__main__':
    main()
