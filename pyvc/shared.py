"""state shared between the native harness (run as __main__) and contract modules"""
LAST_EXCEPTION = [None]        # the exception object of the last real run (contracts see the class; this is the instance)
