"""Generated (symbolic) classes: the struct / union classes that the
python_types backend emits are not available to the verifier as python
classes -- a proof about the runtime has to hold for *every* such class.  They
are modelled as class ids above SYM_CLASS_BASE with

* ``ClassAttr(cid, name)``: the class attribute table (reflection tables,
  ``bb.Attribute`` descriptors), VAbsent when the class has no such attribute;
  what the tables look like is stated by the specification predicate ``wf_def``
  (spec/runtime.py), never assumed here;
* ``Sub(c1, c2)``: the subclass relation (reflexive; generated classes extend
  only ``bb.Struct`` / ``bb.Union`` among the classes of the tree);
* a dynamic instance heap ``oid -> (attribute name -> value)`` for attributes
  accessed through computed names (``getattr(value, '_%s_value' % name)``).
"""
import inspect
import types
import z3

from . import vals
from . import interp as I
from .vals import Val

ClassAttr = z3.Function('ClassAttr', z3.IntSort(), vals.STR, vals.VS)
DYN_SORT = z3.ArraySort(z3.IntSort(), z3.ArraySort(vals.STR, vals.VS))


def dyn_heap(p):
    if '$dyn' not in p.heap:
        p.heap['$dyn'] = z3.Const('DYN0', DYN_SORT)
    return p.heap['$dyn']


def install(E, bb):
    Struct, Union, Attribute = bb.Struct, bb.Union, bb.Attribute
    C = E.classes
    open_bases = [Struct, Union]

    def is_descriptor(a):
        return z3.And(Val.is_VObj(a), C.cls_of(Val.oid(a)) == C.cid(Attribute))

    def cid_of(sv):
        """class id term of a class-valued SV"""
        if isinstance(sv, I.C):
            if not isinstance(sv.v, type):
                raise I.Unsupported('class expected, got %r' % (sv.v,))
            return z3.IntVal(C.cid(sv.v)), sv.v
        t = sv.t
        E.fail_if(z3.Not(Val.is_VClass(t)), TypeError, 'class expected')
        c = z3.simplify(Val.cid(t))
        if z3.is_int_value(c) and c.as_long() in C.by_id:
            return c, C.by_id[c.as_long()]
        return c, None

    def sub(c1, k1, c2, k2):
        """z3 condition issubclass(c1, c2); k1/k2 the python classes when concrete"""
        if k1 is not None and k2 is not None:
            return z3.BoolVal(issubclass(k1, k2))
        if k2 is not None:
            # symbolic (or unknown) class below a concrete one
            if k2 is object:
                return z3.BoolVal(True)
            if k2 in open_bases:
                r = C.Sub(c1, z3.IntVal(C.cid(k2)))
                # a class is a struct class or a union class, never both
                other = Union if k2 is Struct else Struct
                E.axiom(z3.Not(z3.And(C.Sub(c1, z3.IntVal(C.cid(Struct))),
                                              C.Sub(c1, z3.IntVal(C.cid(Union))))))
                known = [C.cid(K) for K in C.known() if isinstance(K, type) and issubclass(K, k2)]
                return z3.If(c1 > I.SYM_CLASS_BASE, r, z3.Or(*[c1 == j for j in known]))
            known = [C.cid(K) for K in C.known() if isinstance(K, type) and issubclass(K, k2)]
            return z3.And(c1 <= I.SYM_CLASS_BASE, z3.Or(*[c1 == j for j in known]) if known else z3.BoolVal(False))
        if k1 is not None:
            # concrete class below a symbolic one: only if equal ids (impossible) -> False
            return z3.And(c2 <= I.SYM_CLASS_BASE, z3.Or(*[c2 == C.cid(K) for K in k1.__mro__ if K in C.ids]))
        r = C.Sub(c1, c2)
        E.axiom(C.Sub(c1, c1))
        E.axiom(C.Sub(c2, c2))
        for B in open_bases:
            b = z3.IntVal(C.cid(B))
            E.axiom(z3.Implies(z3.And(r, C.Sub(c2, b)), C.Sub(c1, b)))
            # generated classes have single inheritance: an ancestor of a struct
            # (union) class that is itself generated is a struct (union) class
            E.axiom(z3.Implies(z3.And(r, C.Sub(c1, b), c2 > I.SYM_CLASS_BASE), C.Sub(c2, b)))
            E.axiom(z3.Not(z3.And(C.Sub(c1, z3.IntVal(C.cid(Struct))), C.Sub(c1, z3.IntVal(C.cid(Union))))))
        note_pair(c1, c2)
        # a generated class below a class of the tree: only object and its own base
        above_sym = z3.Or(c2 == C.cid(object),
                          *[z3.And(c2 == C.cid(B), C.Sub(c1, z3.IntVal(C.cid(B)))) for B in open_bases])
        sym1 = z3.If(c2 > I.SYM_CLASS_BASE, r, above_sym)
        if E.must(c1 > I.SYM_CLASS_BASE):
            return sym1
        if E.must(c2 > I.SYM_CLASS_BASE):
            return z3.And(c1 > I.SYM_CLASS_BASE, r)
        rel = [K for K in C.known() if isinstance(K, type) and K.__module__.startswith('stone.backends.python_rsrc')]
        table = z3.Or(*([z3.And(c1 == C.cid(K1), c2 == C.cid(K2)) for K1 in rel for K2 in K1.__mro__ if K2 in C.ids]
                        + [c2 == C.cid(object)]))
        return z3.If(c1 > I.SYM_CLASS_BASE, sym1, z3.If(c2 > I.SYM_CLASS_BASE, z3.BoolVal(False), table))

    def slot_literal(n):
        from .builtins_model import _h
        name = 'Tmpl_' + _h(repr(('_', '_value')))
        f = z3.Function(name, vals.STR, vals.STR)
        inv = z3.Function(name + '_inv', vals.STR, vals.STR)
        return z3.simplify(n == f(inv(n)))

    def slot_shaped(n):
        """syntactic: the name is an application of the slot template, or the
        current scopes / path condition contain the slot literal for it"""
        from .builtins_model import _h
        if z3.is_app(n) and n.decl().name() == 'Tmpl_' + _h(repr(('_', '_value'))):
            return True
        return E._known(slot_literal(n))

    def slot_axiom(c, n):
        """GEN-WF assumption: no field descriptor of a generated class is named
        like a slot ('_<x>_value'), so a slot-named attribute is the instance slot"""
        from .builtins_model import _h
        name = 'Tmpl_' + _h(repr(('_', '_value')))
        f = z3.Function(name, vals.STR, vals.STR)
        inv = z3.Function(name + '_inv', vals.STR, vals.STR)
        E.assumptions.add("generated classes have no field descriptor named '_<x>_value' (slot names)")
        E.axiom(z3.Implies(n == f(inv(n)), z3.Not(is_descriptor(ClassAttr(c, n)))))

    def note_pair(c1, c2):
        """inheritance of class attributes: a generated subclass sees the
        descriptors of its ancestors unchanged (field clashes along an
        inheritance chain are refused by the compiler, C01)"""
        g = E.path.ghost
        pairs = g.setdefault('sub_pairs', [])
        key = (vals.tid(c1), vals.tid(c2))
        if any(k == key for (k, _, _) in pairs):
            return
        pairs.append((key, c1, c2))
        for (_, n) in g.setdefault('ca_names', []):
            inherit_axiom(c1, c2, n)

    def note_name(n):
        g = E.path.ghost
        names = g.setdefault('ca_names', [])
        if any(k == vals.tid(n) for (k, _) in names):
            return
        names.append((vals.tid(n), n))
        for (_, c1, c2) in g.setdefault('sub_pairs', []):
            inherit_axiom(c1, c2, n)

    def inherit_axiom(c1, c2, n):
        a2 = ClassAttr(c2, n)
        E.axiom(z3.Implies(z3.And(C.Sub(c1, c2), is_descriptor(a2)), ClassAttr(c1, n) == a2))

    def isinstance_symbolic(obj, clsarg):
        c2, k2 = cid_of(clsarg)
        if isinstance(obj, I.C):
            if k2 is not None:
                return isinstance(obj.v, k2)
            return False
        if not isinstance(obj, I.T):
            return False
        t = obj.t
        isobj = Val.is_VObj(t)
        c1 = C.cls_of(Val.oid(t))
        return z3.And(isobj, sub(c1, None, c2, k2))
    E.isinstance_symbolic = isinstance_symbolic

    def issubclass_symbolic(a, b):
        c1, k1 = cid_of(a)
        c2, k2 = cid_of(b)
        return z3.simplify(sub(c1, k1, c2, k2))
    E.issubclass_symbolic = issubclass_symbolic

    # -------------------------------------------------------------- bases
    def base_of(c):
        """python base class (bb.Struct / bb.Union) of symbolic class id c."""
        for B in open_bases:
            if E.must(C.Sub(c, z3.IntVal(C.cid(B)))):
                return B
        if E.merge:
            return None
        conds = [C.Sub(c, z3.IntVal(C.cid(B))) for B in open_bases]
        neither = z3.Not(z3.Or(*conds))
        k = E.path.choose(conds + [neither], ['struct-class', 'union-class', 'other-class'])
        if k == len(open_bases):
            return None
        return open_bases[k]

    def class_attr(c, name_term, what='class attribute'):
        return ClassAttr(c, name_term)

    def symbolic_class_getattr(clsobj, name, node):
        c = z3.simplify(Val.cid(clsobj.t))
        B = base_of(c)
        if B is not None:
            st = inspect.getattr_static(B, name, None)
            if isinstance(st, classmethod):
                return I.SBound(st.__func__, clsobj, B)
            if isinstance(st, staticmethod):
                return I.C(st.__func__)
            if isinstance(st, types.FunctionType):
                return I.C(st)
        gen = getattr(E, 'gen_class_attr', None)
        if gen is not None and B is not None:
            r = gen(c, name)
            if r is not None:
                return I.T(r)
        r = ClassAttr(c, vals.strlit(name))
        E.fail_if(r == Val.VAbsent, AttributeError, 'class attribute ' + name)
        return I.T(r)
    E.symbolic_class_getattr = symbolic_class_getattr

    def descriptor_get(a, obj, c):
        fn = Attribute.__dict__['__get__']
        return E.call_function(fn, [I.T(a), obj, I.T(Val.VClass(c))], {})

    def symbolic_object_getattr(obj, name, node, cands):
        t = obj.t
        oid = z3.simplify(Val.oid(t))
        c = C.cls_of(oid)
        if cands:
            if E.merge:
                if not E.must(c > I.SYM_CLASS_BASE):
                    return None
            elif not E.path.branch(c > I.SYM_CLASS_BASE, 'generated-class-instance'):
                E.path.ghost.pop(('cands', vals.tid(oid)), None)
                return None
        B = base_of(c)
        if B is not None:
            st = inspect.getattr_static(B, name, None)
            if type(st).__name__ == 'member_descriptor':
                r = z3.Select(E.path.heap_arr(name), oid)
                E.fail_if(r == Val.VAbsent, AttributeError, name)
                return I.T(r)
            if isinstance(st, types.FunctionType):
                return I.SBound(st, obj, B)
            if isinstance(st, classmethod):
                return I.SBound(st.__func__, I.T(Val.VClass(c)), B)
            gen = getattr(E, 'gen_class_attr', None)
            if gen is not None:
                r = gen(c, name)       # a reflection table read through an instance
                if r is not None:
                    return I.T(r)
        return dyn_getattr(obj, I.C(name), None)
    E.symbolic_object_getattr = symbolic_object_getattr

    def name_term(name_sv):
        nt = E.lift(name_sv)
        E.fail_if(z3.Not(Val.is_VStr(nt)), TypeError, 'attribute name must be string')
        return z3.simplify(Val.s(nt))

    NO_DEFAULT = object()

    def dyn_getattr(obj, name_sv, default):
        """getattr(obj, <computed name>[, default]) on instances / classes of
        generated classes."""
        n = name_term(name_sv)
        if isinstance(obj, I.C) and isinstance(obj.v, type):
            raise I.Unsupported('getattr with computed name on a concrete class')
        if not isinstance(obj, I.T):
            raise I.Unsupported('getattr with computed name on %r' % (obj,))
        t = obj.t
        if E.must(Val.is_VClass(t)):
            c = z3.simplify(Val.cid(t))
            r = ClassAttr(c, n)
            note_name(n)
            return absent_or(r, default, 'class attribute')
        E.fail_if(z3.Not(Val.is_VObj(t)), AttributeError, 'computed attribute of a non-object')
        oid = z3.simplify(Val.oid(t))
        c = C.cls_of(oid)
        if not E.must(c > I.SYM_CLASS_BASE):
            if E.merge:
                raise I.Unsupported('computed attribute of an instance of undetermined class (specification)')
            if not E.path.branch(c > I.SYM_CLASS_BASE, 'generated-class-instance'):
                raise I.Unsupported('getattr with computed name on an instance of a class of the tree')
        if slot_shaped(n):
            r = z3.Select(z3.Select(dyn_heap(E.path), oid), n)
            return absent_or(r, default, 'attribute')
        a = ClassAttr(c, n)
        note_name(n)
        slot_axiom(c, n)
        isd = z3.simplify(is_descriptor(a))
        if slot_shaped(n):
            # a storage slot: the instance value or nothing (the class-level entry of
            # that name is the slot descriptor itself, never a value)
            r = z3.Select(z3.Select(dyn_heap(E.path), oid), n)
            return absent_or(r, default, 'attribute')
        if E.merge:
            if E.must(isd):
                return descriptor_get_guard(a, obj, c, default)
            if E.must(z3.Not(isd)):
                r = z3.Select(z3.Select(dyn_heap(E.path), oid), n)
                return absent_or(z3.If(r == Val.VAbsent, a, r), default, 'attribute')
            # undetermined: both readings, merged (failures are recorded guarded)
            with E.assuming(isd):
                x = descriptor_get_guard(a, obj, c, default)
            with E.assuming(z3.Not(isd)):
                r = z3.Select(z3.Select(dyn_heap(E.path), oid), n)
                y = absent_or(z3.If(r == Val.VAbsent, a, r), default, 'attribute')
            return E.ite(isd, x, y)
        if E.path.branch(isd, 'descriptor'):
            return descriptor_get_guard(a, obj, c, default)
        r = z3.Select(z3.Select(dyn_heap(E.path), oid), n)
        return absent_or(z3.If(r == Val.VAbsent, a, r), default, 'attribute')

    def descriptor_get_guard(a, obj, c, default):
        if default is None:
            return descriptor_get(a, obj, c)
        try:
            return descriptor_get(a, obj, c)
        except I.PyRaise as pr:
            if issubclass(pr.exc.cls, AttributeError):
                return default
            raise

    def absent_or(r, default, what):
        if default is None:
            E.fail_if(r == Val.VAbsent, AttributeError, what)
            return I.T(r)
        if E.merge:
            return E.ite(r == Val.VAbsent, default, I.T(r))
        if E.must(r != Val.VAbsent):
            return I.T(r)
        if E.path.branch(r == Val.VAbsent, 'absent:' + what):
            return default
        return I.T(r)

    E.getattr_symbolic_name = dyn_getattr

    def dyn_setattr(obj, name_sv, v):
        n = name_term(name_sv)
        if not isinstance(obj, I.T):
            raise I.Unsupported('setattr with computed name on %r' % (obj,))
        t = obj.t
        E.fail_if(z3.Not(Val.is_VObj(t)), AttributeError, 'setattr on a non-object')
        oid = z3.simplify(Val.oid(t))
        c = C.cls_of(oid)
        if not E.must(c > I.SYM_CLASS_BASE):
            if not E.path.branch(c > I.SYM_CLASS_BASE, 'generated-class-instance'):
                raise I.Unsupported('setattr with computed name on an instance of a class of the tree')
        a = ClassAttr(c, n)
        note_name(n)
        slot_axiom(c, n)
        isd = z3.simplify(is_descriptor(a))
        if E.path.branch(isd, 'descriptor'):
            fn = Attribute.__dict__['__set__']
            E.call_function(fn, [I.T(a), obj, v], {})
            return I.C(None)
        h = dyn_heap(E.path)
        E.path.heap['$dyn'] = z3.Store(h, oid, z3.Store(z3.Select(h, oid), n, E.lift(v)))
        return I.C(None)
    E.setattr_symbolic_name = dyn_setattr

    def hasattr_symbolic(obj, name_sv):
        try:
            dyn_getattr(obj, name_sv, None)
            return I.C(True)
        except I.PyRaise as pr:
            if issubclass(pr.exc.cls, AttributeError):
                return I.C(False)
            raise
    E.hasattr_symbolic = hasattr_symbolic

    def call_symbolic(f, args, kwargs):
        t = f.t
        E.fail_if(z3.Not(Val.is_VClass(t)), TypeError, 'object is not callable')
        c = z3.simplify(Val.cid(t))
        if not E.must(c > I.SYM_CLASS_BASE):
            raise I.Unsupported('call of a class object of undetermined identity')
        B = base_of(c)
        if B is None:
            raise I.Unsupported('instantiation of a generated class that is neither struct nor union')
        oid = E.path.alloc(c)
        obj = I.T(Val.VObj(oid))
        if B is Union:
            for sname in ('_tag', '_value'):
                arr = E.path.heap_arr(sname)
                E.path.heap[sname] = z3.Store(arr, oid, Val.VAbsent)
            E.call_function(Union.__dict__['__init__'], [obj] + list(args), kwargs)
            return obj
        if args or kwargs:
            raise I.Unsupported('generated struct constructor with arguments')
        E.assumptions.add('generated struct constructors called without arguments set every field slot to '
                          'NOT_SET (emitted __init__; part of the generator well-formedness stand-in)')
        h = dyn_heap(E.path)
        E.path.heap['$dyn'] = z3.Store(h, oid, z3.K(vals.STR, Val.VNotSet))
        return obj
    E.call_symbolic = call_symbolic
