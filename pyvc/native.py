"""Native side of PyVC: build real Python objects from JSON descriptions,
run the real function of the tree and the SpecPy oracle, compare.

Pure Python, run under /venv/bin/python (the interpreter of the test-suite):

    python -m pyvc.native <request.json>

request: {"mode": "replay"|"search"|"fidelity", "contract_modules": [...],
          "target": "...", "args": {name: desc}, "n": int, "seed": int}
"""
import base64
import datetime
import importlib
import json
import math
import random
import sys
import traceback

from . import contract as CT


# ----------------------------------------------------------------------------
# descriptions <-> objects


def load_class(path):
    mod, qual = path.split(':')
    obj = importlib.import_module(mod)
    for part in qual.split('.'):
        obj = getattr(obj, part)
    return obj


class _TZ(datetime.tzinfo):
    def __init__(self, off):
        self.off = off

    def utcoffset(self, dt):
        return self.off

    def dst(self, dt):
        return None

    def tzname(self, dt):
        return 'X'


def build(desc, memo=None):
    memo = {} if memo is None else memo
    k = desc['k']
    if k == 'none':
        return None
    if k == 'bool':
        return bool(desc['v'])
    if k == 'int':
        return int(desc['v'])
    if k == 'float':
        return float(desc['v'])
    if k == 'str':
        return desc['v']
    if k == 'bytes':
        return desc['v'].encode('latin-1')
    if k == 'list':
        return [build(x, memo) for x in desc['items']]
    if k == 'tuple':
        return tuple(build(x, memo) for x in desc['items'])
    if k == 'dict':
        return dict((build(a, memo), build(b, memo)) for a, b in desc['items'])
    if k == 'set':
        return set(build(x, memo) for x in desc.get('items', []))
    if k == 'notset':
        import stone.backends.python_rsrc.stone_base as bb
        return bb.NOT_SET
    if k == 'nodefault':
        import stone.backends.python_rsrc.stone_base as bb
        return bb.NO_DEFAULT
    if k == 'class':
        if desc.get('cls') is None:
            raise Unbuildable('symbolic class')
        return load_class(desc['cls'])
    if k == 'datetime' and 'v' in desc:
        return datetime.datetime.fromisoformat(desc['v'])
    if k == 'datetime':
        tz = desc.get('tz', 'VNone')
        if tz == 'VNone':
            return datetime.datetime(2020, 1, 2, 3, 4, 5)
        off = desc.get('utcoffset_seconds')
        if off is None:
            raise Unbuildable('datetime with opaque tzinfo')
        off = float(off)
        return datetime.datetime(2020, 1, 2, 3, 4, 5, tzinfo=_TZ(datetime.timedelta(seconds=off)))
    if k == 'obj':
        if desc.get('cls') is None:
            raise Unbuildable('object of symbolic class')
        key = desc.get('id')
        if key is not None and key in memo:
            return memo[key]
        cls = load_class(desc['cls'])
        o = object.__new__(cls)
        if key is not None:
            memo[key] = o
        for name, d in desc.get('slots', {}).items():
            try:
                object.__setattr__(o, name, build(d, memo))
            except AttributeError:
                pass
        return o
    if k == 'call':
        # scenario built by a named deterministic builder (replayable from the description)
        import importlib
        modname, fname = desc['fn'].split(':')
        return getattr(importlib.import_module(modname), fname)(*desc.get('args', []))
    if k in ('gexpr', 'gclass'):
        import spec.corpus as corpus
        return eval(desc['expr'], corpus.namespace())
    if k == 'ginst':
        import spec.corpus as corpus
        key = desc.get('id')
        if key is not None and key in memo:
            return memo[key]
        cls = eval(desc['cls'], corpus.namespace())
        o = object.__new__(cls)
        if key is not None:
            memo[key] = o
        for name, d in desc.get('slots', {}).items():
            object.__setattr__(o, name, build(d, memo))
        return o
    if k == 'gunion':
        import spec.corpus as corpus
        cls = eval(desc['cls'], corpus.namespace())
        o = object.__new__(cls)
        if 'tag' in desc:
            object.__setattr__(o, '_tag', build(desc['tag'], memo))
        if 'value' in desc:
            object.__setattr__(o, '_value', build(desc['value'], memo))
        return o
    if k == 'repattern':
        import re
        return re.compile(desc['pattern'])
    if k == 'func':
        return lambda *a, **kw: None
    if k == 'other':
        return object()
    raise Unbuildable('cannot build %r' % (desc,))


class Unbuildable(Exception):
    pass


def describe(v, depth=0, memo=None):
    """Canonical JSON description of a python value (for comparison)."""
    memo = {} if memo is None else memo
    if depth > 8:
        return {'k': 'deep'}
    if v is None:
        return {'k': 'none'}
    if isinstance(v, bool):
        return {'k': 'bool', 'v': v}
    if isinstance(v, int):
        return {'k': 'int', 'v': v}
    if isinstance(v, float):
        return {'k': 'float', 'v': repr(v)}
    if isinstance(v, str):
        return {'k': 'str', 'v': v}
    if isinstance(v, bytes):
        return {'k': 'bytes', 'v': v.decode('latin-1')}
    if isinstance(v, list):
        return {'k': 'list', 'items': [describe(x, depth + 1, memo) for x in v]}
    if isinstance(v, tuple):
        return {'k': 'tuple', 'items': [describe(x, depth + 1, memo) for x in v]}
    if isinstance(v, dict):
        items = [[describe(a, depth + 1, memo), describe(b, depth + 1, memo)] for a, b in v.items()]
        items.sort(key=lambda kv: json.dumps(kv[0], sort_keys=True))
        return {'k': 'dict', 'items': items}
    if isinstance(v, (set, frozenset)):
        items = sorted((describe(x, depth + 1, memo) for x in v), key=lambda d: json.dumps(d, sort_keys=True))
        return {'k': 'set', 'items': items}
    if isinstance(v, type):
        return {'k': 'class', 'cls': v.__module__ + ':' + v.__qualname__}
    if isinstance(v, datetime.datetime):
        if v.tzinfo is None:
            return {'k': 'datetime', 'tz': 'VNone', 'v': v.isoformat()}
        return {'k': 'datetime', 'tz': 'VOther', 'utcoffset_seconds': v.tzinfo.utcoffset(v).total_seconds(),
                'v': v.isoformat()}
    if isinstance(v, (bytearray, memoryview, datetime.date)) or type(v) is object:
        return {'k': 'other'}
    if type(v).__name__ == 'Pattern' and type(v).__module__ == 're':
        return {'k': 'repattern', 'pattern': v.pattern}
    try:
        import stone.backends.python_rsrc.stone_base as bb
        if v is bb.NOT_SET:
            return {'k': 'notset'}
        if v is bb.NO_DEFAULT:
            return {'k': 'nodefault'}
    except ImportError:
        pass
    g = describe_generated(v, depth, memo)
    if g is not None:
        return g
    if id(v) in memo:
        return {'k': 'ref', 'n': memo[id(v)]}
    memo[id(v)] = len(memo)
    cls = type(v)
    slots = {}
    names = []
    for K in cls.__mro__:
        s = K.__dict__.get('__slots__')
        if s:
            names.extend([s] if isinstance(s, str) else list(s))
    if hasattr(v, '__dict__'):
        names.extend(sorted(vars(v)))
    for n in names:
        try:
            slots[n] = describe(object.__getattribute__(v, n), depth + 1, memo)
        except AttributeError:
            pass
    return {'k': 'obj', 'cls': cls.__module__ + ':' + cls.__qualname__, 'slots': slots}


def describe_generated(v, depth, memo):
    """objects of the generated corpus: classes, instances, validators, descriptors"""
    mod = getattr(v if isinstance(v, type) else type(v), '__module__', '') or ''
    if 'vcorpus_' not in mod and not (type(v).__module__ or '').startswith('stone.backends.python_rsrc'):
        return None
    try:
        import spec.corpus as corpus
        import stone.backends.python_rsrc.stone_base as bb
        import stone.backends.python_rsrc.stone_validators as bv
    except ImportError:
        return None
    if 'mods' not in corpus._state:
        return None
    if isinstance(v, type):
        e = corpus.class_expr(v)
        return {'k': 'gclass', 'expr': e} if e else None
    if isinstance(v, bv.Validator):
        e = corpus.validator_expr(v)
        return {'k': 'gexpr', 'expr': e} if e else None
    if isinstance(v, bb.Attribute):
        for e, c in corpus.struct_classes():
            for fname, _ in c._all_fields_:
                if c.__dict__.get(fname) is v:
                    return {'k': 'gexpr', 'expr': '%s.__dict__[%r]' % (e, fname)}
        return None
    if 'vcorpus_' not in mod:
        return None
    cexpr = corpus.class_expr(type(v))
    if isinstance(v, bb.Struct):
        slots = {}
        for K in type(v).__mro__:
            for sname in (K.__dict__.get('__slots__') or ()):
                try:
                    slots[sname] = describe(object.__getattribute__(v, sname), depth + 1, memo)
                except AttributeError:
                    pass
        return {'k': 'ginst', 'cls': cexpr, 'slots': slots}
    if isinstance(v, bb.Union):
        d = {'k': 'gunion', 'cls': cexpr}
        try:
            d['tag'] = describe(v._tag, depth + 1, memo)
        except AttributeError:
            pass
        try:
            d['value'] = describe(v._value, depth + 1, memo)
        except AttributeError:
            pass
        return d
    return None


def same(d1, d2):
    """Descriptions equal, ignoring object ids (NaN equals NaN)."""
    def strip(d):
        if isinstance(d, dict):
            return dict((k, strip(x)) for k, x in d.items() if k not in ('id', 'n'))
        if isinstance(d, list):
            return [strip(x) for x in d]
        return d
    return strip(d1) == strip(d2)


# ----------------------------------------------------------------------------
# running


from .shared import LAST_EXCEPTION


def run_real(fn, args):
    LAST_EXCEPTION[0] = None
    try:
        v = fn(*args)
        return ('return', v)
    except RecursionError:
        raise
    except Exception as e:          # every escape is an outcome
        LAST_EXCEPTION[0] = e
        return ('raise', type(e), e)
    except SystemExit as e:         # sys.exit() of command-line code
        LAST_EXCEPTION[0] = e
        return ('raise', type(e), e)


def outcome_desc(out):
    if out[0] == 'return':
        return {'outcome': 'return', 'value': describe(out[1])}
    return {'outcome': 'raise', 'cls': out[1].__module__ + ':' + out[1].__qualname__,
            'message': str(out[2])[:300] if len(out) > 2 else ''}


def expected_desc(exp):
    if isinstance(exp, CT.Ret):
        return {'outcome': 'return', 'value': describe(exp.value)}
    if isinstance(exp, CT.Raise):
        return {'outcome': 'raise', 'cls': exp.cls.__module__ + ':' + exp.cls.__qualname__}
    raise TypeError('expected() returned %r' % (exp,))


def agree(obs, exp):
    if obs['outcome'] != exp['outcome']:
        return False
    if obs['outcome'] == 'raise':
        return obs['cls'] == exp['cls']
    return same(obs['value'], exp['value'])


def _method(con, name):
    f = con.__dict__.get(name)
    if isinstance(f, (staticmethod, classmethod)):
        f = f.__func__
    return f


def ordered_args(con, argdescs):
    names = [n for n, k in con.params.items() if not isinstance(k, CT.Default)]
    return names


def run_case(con, fn, argdescs):
    """One native evaluation: real function vs SpecPy oracle on fresh copies
    of the arguments."""
    names = ordered_args(con, argdescs)
    res = {'args': argdescs}
    try:
        memo = {}
        spec_args = [build(argdescs[n], memo) for n in names]
        memo = {}
        real_args = [build(argdescs[n], memo) for n in names]
    except Unbuildable as e:
        res['unbuildable'] = str(e)
        return res
    req = _method(con, 'requires')
    try:
        res['requires'] = bool(req(*spec_args)) if req is not None else True
    except Exception as e:
        res['requires'] = False
        res['requires_error'] = '%s: %s' % (type(e).__name__, e)
    if not res['requires']:
        return res
    exp_fn = _method(con, 'expected')
    ens_fn = _method(con, 'ensures')
    snap_fn = _method(con, 'snapshot')
    snap = None
    if snap_fn is not None:
        import copy
        try:
            snap = copy.copy(snap_fn(*real_args))
            snap = tuple(copy.copy(x) if isinstance(x, (list, dict)) else x for x in snap)
        except Exception as e:
            res['oracle_error'] = 'snapshot: %s: %s' % (type(e).__name__, e)
            return res
    eff = con.opts.get('effects') if hasattr(con, 'opts') else None
    if hasattr(con, 'opts') and con.opts.get('contextmanager'):
        # a generator-based context manager is exercised the way it is used: entered, an empty body, left
        cm = fn

        def fn(*a):
            with cm(*a):
                pass
    if hasattr(con, 'opts') and con.opts.get('stdin'):
        # the function reads standard input: it is given the text carried by its `specs` argument
        import io as _io
        inner = fn
        text = getattr(real_args[names.index('specs')], 'text', '')

        def fn(*a):
            saved = sys.stdin
            sys.stdin = _io.TextIOWrapper(_io.BytesIO(text.encode('utf-8')), encoding='utf-8')
            try:
                return inner(*a)
            finally:
                sys.stdin = saved
    if eff is not None:
        # effectful library calls are recorded, not performed (spec/backend.py: intercept)
        import spec.backend as _SB
        with _SB.intercept(eff):
            obs = run_real(fn, real_args)
    else:
        obs = run_real(fn, real_args)
    res['observed'] = outcome_desc(obs)
    ok = True
    if exp_fn is not None:
        try:
            exp = expected_desc(exp_fn(*spec_args))
        except Exception as e:
            res['oracle_error'] = '%s: %s' % (type(e).__name__, e)
            res['trace'] = traceback.format_exc()[-800:]
            return res
        res['expected'] = exp
        ok = ok and agree(res['observed'], exp)
    if ens_fn is not None:
        try:
            result = obs[1] if obs[0] == 'return' else None
            exc = obs[1] if obs[0] == 'raise' else None
            if eff is not None:
                with _SB.intercept(eff, record=False):
                    e_ok = bool(ens_fn(*(real_args + [result, exc] + ([snap] if snap is not None else []))))
            else:
                e_ok = bool(ens_fn(*(real_args + [result, exc] + ([snap] if snap is not None else []))))
        except Exception as e:
            res['oracle_error'] = 'ensures: %s: %s' % (type(e).__name__, e)
            return res
        res['ensures'] = e_ok
        ok = ok and e_ok
    res['agree'] = ok
    return res


# ----------------------------------------------------------------------------
# sampling (bounded refutation search and encoding-fidelity cross-check)

INT_POOL = [0, 1, -1, 2, 3, 5, 7, 10, 255, 2 ** 31 - 1, 2 ** 31, -2 ** 31, -2 ** 31 - 1, 2 ** 32 - 1, 2 ** 32,
            2 ** 63 - 1, 2 ** 63, -2 ** 63, -2 ** 63 - 1, 2 ** 64 - 1, 2 ** 64, 10 ** 400, -10 ** 400,
            2 ** 1024, 2 ** 1024 - 2 ** 970 - 1, 2 ** 1024 - 2 ** 970]
FLOAT_POOL = [0.0, -0.0, 1.0, -1.0, 0.5, 1.5, 1e308, -1e308, 3.40282e38, -3.40282e38, 3.40283e38, -3.40283e38,
              3.4028200000000004e+38, 3.4028199999999996e+38,
              float('inf'), float('-inf'), float('nan'), 5e-324, 2.0 ** 53, 1e16]
STR_POOL = ['', 'a', 'ab', 'abc', '.tag', 'x' * 10, 'é', 'A', 'a\nb', '%s', '{}', '1']
BYTES_POOL = [b'', b'a', b'ab', b'\xff\x00', b'abc' * 4]


def sample_value(rng, depth=0):
    r = rng.random()
    if r < 0.07:
        return {'k': 'none'}
    if r < 0.17:
        return {'k': 'bool', 'v': rng.random() < 0.5}
    if r < 0.45:
        return {'k': 'int', 'v': rng.choice(INT_POOL) + rng.choice([0, 0, 0, 1, -1])}
    if r < 0.62:
        return {'k': 'float', 'v': repr(rng.choice(FLOAT_POOL))}
    if r < 0.75:
        return {'k': 'str', 'v': rng.choice(STR_POOL)}
    if r < 0.80:
        return {'k': 'bytes', 'v': rng.choice(BYTES_POOL).decode('latin-1')}
    if depth < 2:
        if r < 0.87:
            return {'k': 'list', 'items': [sample_value(rng, depth + 1) for _ in range(rng.randrange(0, 4))]}
        if r < 0.92:
            return {'k': 'tuple', 'items': [sample_value(rng, depth + 1) for _ in range(rng.randrange(0, 4))]}
        if r < 0.96:
            return {'k': 'dict', 'items': [[{'k': 'str', 'v': rng.choice(STR_POOL)}, sample_value(rng, depth + 1)]
                                           for _ in range(rng.randrange(0, 3))]}
    if r < 0.98:
        return {'k': 'datetime', 'tz': 'VNone'}
    return {'k': 'other'}


def all_subclasses(cls):
    out = []
    for k in cls.__subclasses__():
        out.append(k)
        out.extend(all_subclasses(k))
    return out


def slot_names(cls):
    out = []
    for K in cls.__mro__:
        s = K.__dict__.get('__slots__')
        if s:
            out.extend([s] if isinstance(s, str) else list(s))
    return out


def sample_kind(rng, kind, depth=0):
    if isinstance(kind, CT.Lit):
        return CT.const_desc(kind.value)
    if isinstance(kind, CT.OneOf):
        return sample_kind(rng, rng.choice(kind.kinds), depth)
    if isinstance(kind, CT.AnyVal):
        return sample_value(rng, depth)
    if isinstance(kind, CT.Json):
        while True:
            d = sample_value(rng, depth)
            if d['k'] in ('none', 'bool', 'int', 'float', 'str', 'list', 'dict'):
                return d
    if isinstance(kind, CT.Bool):
        return {'k': 'bool', 'v': rng.random() < 0.5}
    if isinstance(kind, CT.Int):
        return {'k': 'int', 'v': rng.choice(INT_POOL) + rng.choice([0, 1, -1])}
    if isinstance(kind, CT.Str):
        return {'k': 'str', 'v': rng.choice(STR_POOL)}
    if isinstance(kind, CT.Obj):
        subs = [kind.cls] if kind.exact else [kind.cls] + all_subclasses(kind.cls)
        if kind.proper:
            subs = [k for k in subs if k is not kind.cls]
        subs = [k for k in subs if k.__module__.startswith('stone.')]
        cls = rng.choice(subs)
        slots = {}
        gen = getattr(kind, 'gen', None)
        if not kind.fresh:
            for s in slot_names(cls):
                if s == '_redact':
                    continue
                sub = kind.attrs.get(s)
                slots[s] = sample_kind(rng, sub, depth + 1) if sub is not None else sample_slot(rng, depth)
        return {'k': 'obj', 'cls': cls.__module__ + ':' + cls.__qualname__, 'slots': slots,
                'id': rng.randrange(1, 10 ** 6)}
    raise TypeError('cannot sample kind %r' % (kind,))


def sample_slot(rng, depth):
    r = rng.random()
    if r < 0.3:
        return {'k': 'none'}
    return sample_value(rng, depth + 1)


def _in_known_case(con, argdescs, cases):
    if not cases:
        return False
    names = ordered_args(con, None)
    try:
        vals_ = dict((nm, build(argdescs[nm])) for nm in names)
    except Exception:
        return False
    g = dict(sys.modules[con.__module__].__dict__)
    for c in cases:
        try:
            if bool(eval(c, g, dict(vals_))):
                return True
        except Exception:
            continue
    return False


def search(con, fn, n, seed, want_fail=True, known_cases=None):
    """Bounded search: sample inputs, keep those satisfying requires, compare
    the real function with the oracle.  Returns stats and the first mismatch."""
    rng = random.Random(seed)
    names = ordered_args(con, None)
    gen = _method(con, 'gen')
    tried = accepted = 0
    mismatch = None
    oracle_errors = 0
    gen_errors = 0
    known_hits = 0
    distinct = set()
    tries_cap = n * 400
    while accepted < n and tried < tries_cap:
        tried += 1
        if gen is not None:
            try:
                argdescs = gen(rng)
            except Exception as e:
                if type(e).__name__ == 'CorpusBuildError':
                    raise
                # generators call the real constructors; on a changed tree they may
                # refuse: that sample is skipped (the constructors have contracts of their own)
                gen_errors += 1
                continue
        else:
            argdescs = dict((nm, sample_kind(rng, con.params[nm])) for nm in names)
        res = run_case(con, fn, argdescs)
        if not res.get('requires'):
            continue
        accepted += 1
        distinct.add(json.dumps(argdescs, sort_keys=True, default=str))
        if 'oracle_error' in res:
            oracle_errors += 1
            if mismatch is None:
                mismatch = res
            continue
        if res.get('agree') is False and mismatch is None:
            if _in_known_case(con, argdescs, known_cases):
                # a listed known finding: counted, and the search goes on so that a
                # different violation of the same property is still found
                known_hits += 1
                continue
            mismatch = res
            if want_fail:
                break
    return {'tried': tried, 'accepted': accepted, 'distinct': len(distinct), 'known_hits': known_hits,
            'oracle_errors': oracle_errors, 'gen_errors': gen_errors, 'mismatch': mismatch}


def lemma_case(lem, argdescs):
    names = list(lem.params)
    res = {'args': argdescs}
    try:
        memo = {}
        args = [build(argdescs[n], memo) for n in names]
    except Unbuildable as e:
        res['unbuildable'] = str(e)
        return res
    hyp = _method(lem, 'hypothesis')
    try:
        res['requires'] = bool(hyp(*args)) if hyp is not None else True
    except Exception as e:
        res['requires'] = False
        res['requires_error'] = '%s: %s' % (type(e).__name__, e)
    if not res['requires']:
        return res
    try:
        res['statement'] = bool(_method(lem, 'statement')(*args))
    except Exception as e:
        res['oracle_error'] = '%s: %s' % (type(e).__name__, e)
        return res
    wit = _method(lem, 'witness')
    if wit is not None and not res['statement']:
        try:
            res['witness'] = wit(*args)
        except Exception as e:
            res['witness'] = 'witness raised %s: %s' % (type(e).__name__, e)
    res['agree'] = res['statement']
    return res


def lemma_search(lem, n, seed):
    rng = random.Random(seed)
    gen = _method(lem, 'gen')
    names = list(lem.params)
    tried = accepted = 0
    mismatch = None
    distinct = set()
    while accepted < n and tried < n * 400:
        tried += 1
        try:
            argdescs = gen(rng) if gen is not None else dict((nm, sample_kind(rng, lem.params[nm])) for nm in names)
        except Exception:
            continue
        res = lemma_case(lem, argdescs)
        if not res.get('requires'):
            continue
        accepted += 1
        distinct.add(json.dumps(argdescs, sort_keys=True, default=str))
        if 'oracle_error' in res or res.get('agree') is False:
            mismatch = res
            break
    return {'tried': tried, 'accepted': accepted, 'distinct': len(distinct), 'mismatch': mismatch,
            'oracle_errors': 1 if mismatch and 'oracle_error' in mismatch else 0}


def main(argv):
    req = json.load(open(argv[1]))
    for m in req.get('contract_modules', []):
        importlib.import_module(m)
    if req['target'].startswith('lemma:'):
        lem = CT.LEMMAS[req['target'][6:]]
        if req['mode'] == 'replay':
            out = lemma_case(lem, req['args'])
        elif req['mode'] == 'case':
            names = list(lem.params)
            try:
                vals_ = dict((n, build(req['args'][n])) for n in names)
                g = dict(sys.modules[lem.__module__].__dict__)
                out = {'case': bool(eval(req['case'], g, vals_))}
            except Exception as e:
                out = {'case': False, 'error': '%s: %s' % (type(e).__name__, e)}
        else:
            out = lemma_search(lem, req.get('n', 200), req.get('seed', 0))
        json.dump(out, sys.stdout, default=str)
        return 0
    con = CT.REGISTRY[req['target']]
    fn, owner = CT.resolve(req['target'])
    if req['mode'] == 'replay':
        out = run_case(con, fn, req['args'])
    elif req['mode'] == 'search':
        out = search(con, fn, req.get('n', 200), req.get('seed', 0), known_cases=req.get('known_cases'))
        try:
            if getattr(fn, '__pyvc_ast__', None) is not None:
                out['source'] = {'file': fn.__code__.co_filename, 'lines': list(fn.__pyvc_lines__),
                                 'sha256': fn.__pyvc_sha__, 'extraction_drops': fn.__pyvc_drops__}
            else:
                import inspect, hashlib
                lines, start = inspect.getsourcelines(fn)
                out['source'] = {'file': fn.__code__.co_filename, 'lines': [start, start + len(lines) - 1],
                                 'sha256': hashlib.sha256(''.join(lines).encode('utf-8')).hexdigest()}
        except Exception:
            pass
    elif req['mode'] == 'case':
        names = ordered_args(con, None)
        try:
            vals_ = dict((n, build(req['args'][n])) for n in names)
            g = dict(sys.modules[con.__module__].__dict__)
            out = {'case': bool(eval(req['case'], g, vals_))}
        except Exception as e:
            out = {'case': False, 'error': '%s: %s' % (type(e).__name__, e)}
    else:
        raise SystemExit('unknown mode')
    json.dump(out, sys.stdout, default=str)
    return 0


if __name__ == '__main__':
    try:
        sys.exit(main(sys.argv))
    except Exception as e:
        if type(e).__name__ != 'CorpusBuildError':
            raise
        json.dump({'corpus_error': str(e)}, sys.stdout)
        sys.exit(0)
