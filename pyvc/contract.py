"""Contract / specification vocabulary.  Pure Python (no z3): this module is
imported both by the verifier (python3-vt) and by the native replay / oracle
runs (/venv/bin/python), so one text serves as z3 input and as executable
oracle (SpecPy, DESIGN.md 2.2)."""
import importlib
import inspect

REGISTRY = {}       # 'module:Qual.name' -> contract class
ORDER = []


class Ret:
    """Normal outcome carrying a value."""
    __slots__ = ('value',)

    def __init__(self, value=None):
        self.value = value

    def __repr__(self):
        return 'Ret(%r)' % (self.value,)


class Raise:
    """Exceptional outcome of class ``cls``."""
    __slots__ = ('cls',)

    def __init__(self, cls):
        self.cls = cls

    def __repr__(self):
        return 'Raise(%s)' % (getattr(self.cls, '__name__', self.cls),)


def contract(target, **opts):
    def deco(cls):
        cls.target = target
        cls.opts = opts
        cls.cname = cls.__name__
        if target in REGISTRY:
            raise RuntimeError('duplicate contract for ' + target)
        REGISTRY[target] = cls
        ORDER.append(target)
        return cls
    return deco


LEMMAS = {}
LEMMA_ORDER = []


def lemma(name, **opts):
    """An L2 lemma over specification functions: class with ``params``,
    optional ``hypothesis(*params)`` and ``statement(*params)`` (SpecPy, bool),
    optional native ``witness(*params)`` that demonstrates a violation on the
    real code for a counter-model, optional ``gen(rng)``."""
    def deco(cls):
        cls.lname = name
        cls.opts = opts
        cls.target = 'lemma:' + name
        LEMMAS[name] = cls
        LEMMA_ORDER.append(name)
        return cls
    return deco


def spec(fn=None, recursive=False, reads=(), returns='val', unfold=1, kind=None, facts=None, opaque=False):
    """Mark a SpecPy function.  ``recursive`` functions become uninterpreted
    symbols (of result sort ``returns``: 'val' | 'bool' | 'outcome') unfolded
    ``unfold`` level(s) deep at the terms that occur."""
    def deco(f):
        f._spec = True
        f._recursive = recursive or opaque
        f._opaque = opaque          # never unfolded symbolically (natively: the reference implementation)
        f._reads = tuple(reads)
        f._returns = returns
        f._unfold = unfold
        f._result_kind = kind
        f._facts = facts          # SpecPy predicate over (args..., result): a lemma about the function
        return f
    if fn is not None:
        return deco(fn)
    return deco


def resolve(target):
    """'pkg.mod:Class.meth' -> (function object, defining class or None)."""
    target = target.split('#', 1)[0]        # 'pkg.mod:func#name' names a further contract on the same function
    modname, qual = target.split(':')
    if '@' in qual:
        from . import slices
        fn, owner = resolve(target.split('@')[0])
        return slices.build(target, fn), owner
    mod = importlib.import_module(modname)
    obj = mod
    owner = None
    parts = qual.split('.')
    for i, part in enumerate(parts):
        if isinstance(obj, type):
            owner = obj
            obj = inspect.getattr_static(obj, part)
        else:
            obj = getattr(obj, part)
    if isinstance(obj, (classmethod, staticmethod)):
        obj = obj.__func__
    if isinstance(obj, property):
        obj = obj.fget
    return obj, owner


# ----------------------------------------------------------------------------
# parameter kinds


class Kind:
    pass


class Obj(Kind):
    """Instance of ``cls`` (or of a subclass unless exact)."""

    def __init__(self, cls, exact=False, attrs=None, fresh=False, proper=False, generated=False):
        self.cls = cls
        self.generated = generated    # instance of a generated (python_types) subclass of cls
        self.exact = exact
        self.proper = proper          # proper subclasses only (cls itself is abstract)
        self.attrs = attrs or {}      # attribute -> Kind, for classes without __slots__
        self.fresh = fresh            # a just-allocated object (for __init__): slots absent


class AnyVal(Kind):
    """Any closed-world Python value."""


class Lit(Kind):
    """Exactly this python constant."""

    def __init__(self, value):
        self.value = value


class OneOf(Kind):
    def __init__(self, *kinds):
        self.kinds = kinds


class Bool(Kind):
    pass


class Int(Kind):
    pass


class Str(Kind):
    pass


class Json(Kind):
    """A JSON value as produced by json.loads (dict keys are str)."""


class Default(Kind):
    """Parameter omitted: takes its declared default."""


# native helpers usable inside SpecPy -----------------------------------------


def implies(a, b):
    return (not a) or b


def old(x):
    """Value of ``x`` in the pre-state (identity when run natively on the
    pre-state snapshot)."""
    return x


def const_desc(v):
    """JSON description of a python constant (see pyvc.native.build)."""
    if v is None:
        return {'k': 'none'}
    if isinstance(v, bool):
        return {'k': 'bool', 'v': v}
    if isinstance(v, int):
        return {'k': 'int', 'v': v}
    if isinstance(v, float):
        return {'k': 'float', 'v': repr(v)}
    if isinstance(v, str):
        return {'k': 'str', 'v': v}
    if isinstance(v, bytes):
        return {'k': 'bytes', 'v': v.decode('latin-1')}
    if isinstance(v, type):
        return {'k': 'class', 'cls': v.__module__ + ':' + v.__qualname__}
    if isinstance(v, (list, tuple)):
        return {'k': 'list' if isinstance(v, list) else 'tuple', 'items': [const_desc(x) for x in v]}
    if isinstance(v, dict):
        return {'k': 'dict', 'items': [[const_desc(a), const_desc(b)] for a, b in v.items()]}
    raise TypeError('constant %r has no description' % (v,))
