"""PyVC - verification-condition generator for a subset of Python, driven by
the AST of the real functions of the repository under verification."""
