"""PyVC symbolic interpreter: forward symbolic execution of the AST of real
functions, one path at a time (direct style, paths enumerated by re-execution
along recorded decision prefixes).

Soundness contract of this file (see DESIGN.md 2.1): every construct that is
not interpreted raises ``Unsupported`` -- nothing is skipped silently.  Every
implicit failure of an interpreted operation (TypeError of ``<`` on mixed
kinds, AttributeError on a missing attribute, KeyError, arity errors of ``%``)
is a branch of its own that ends in ``PyRaise``.
"""
import ast
import os
import builtins as _bi
import inspect
import textwrap
import time
import types
import z3

from . import vals
from .vals import Val

# ----------------------------------------------------------------------------
# control-flow exceptions of the interpreter itself


class Unsupported(Exception):
    pass


class PathAbort(Exception):
    """Current path is infeasible / cut."""


class PyRaise(Exception):
    def __init__(self, exc):
        Exception.__init__(self)
        self.exc = exc          # SExc


class _Return(Exception):
    def __init__(self, v):
        self.v = v


class _Break(Exception):
    pass


class _Continue(Exception):
    pass


# ----------------------------------------------------------------------------
# symbolic values


class SV:
    pass


class C(SV):
    """Concrete Python object (constants, classes, functions, modules)."""
    __slots__ = ('v',)

    def __init__(self, v):
        self.v = v

    def __repr__(self):
        return 'C(%r)' % (self.v,)


class T(SV):
    """Symbolic value: a z3 term of sort Val."""
    __slots__ = ('t',)

    def __init__(self, t):
        self.t = t

    def __repr__(self):
        return 'T(%s)' % (self.t,)


class STuple(SV):
    __slots__ = ('items',)

    def __init__(self, items):
        self.items = list(items)

    def __repr__(self):
        return 'STuple(%r)' % (self.items,)


class SFile(SV):
    """ghost file object returned by the model of open(): only its path matters"""
    __slots__ = ('path', 'mode')

    def __init__(self, path, mode):
        self.path = path
        self.mode = mode


class SList(SV):
    """List with a concrete shape created by the code under execution."""
    __slots__ = ('items',)

    def __init__(self, items):
        self.items = list(items)

    def __repr__(self):
        return 'SList(%r)' % (self.items,)


class SDict(SV):
    """Dict with concrete (hashable python) keys created by the code."""
    __slots__ = ('d',)

    def __init__(self, d=None):
        self.d = dict(d or {})


class SExc(SV):
    """Exception instance."""
    __slots__ = ('cls', 'args', 'attrs')

    def __init__(self, cls, args=(), attrs=None):
        self.cls = cls
        self.args = list(args)
        self.attrs = attrs or {}

    def __repr__(self):
        return 'SExc(%s)' % self.cls.__name__


class SBound(SV):
    """Bound method: python function + receiver SV."""
    __slots__ = ('func', 'recv', 'defcls')

    def __init__(self, func, recv, defcls=None):
        self.func = func
        self.recv = recv
        self.defcls = defcls


class SBuiltinMethod(SV):
    """Method of a builtin kind (str/list/dict/...) on a symbolic receiver."""
    __slots__ = ('recv', 'name')

    def __init__(self, recv, name):
        self.recv = recv
        self.name = name


class SClosure(SV):
    """Function defined locally inside an interpreted function."""
    __slots__ = ('node', 'frame')

    def __init__(self, node, frame):
        self.node = node
        self.frame = frame


class SSuper(SV):
    __slots__ = ('defcls', 'recv')

    def __init__(self, defcls, recv):
        self.defcls = defcls
        self.recv = recv


class SIter(SV):
    """Materialised iteration source with concrete shape: list of SVs."""
    __slots__ = ('items',)

    def __init__(self, items):
        self.items = list(items)


# ----------------------------------------------------------------------------
# class table


class ClassTable:
    """Maps python classes to integer ids; subclass facts as finite tables."""

    def __init__(self):
        self.ids = {}
        self.by_id = {}
        self.cls_of = z3.Function('cls_of', z3.IntSort(), z3.IntSort())
        self.Sub = z3.Function('Sub', z3.IntSort(), z3.IntSort(), z3.BoolSort())
        self.open_bases = set()     # classes that generated (symbolic) classes may extend

    def cid(self, cls):
        if cls not in self.ids:
            n = len(self.ids) + 1
            self.ids[cls] = n
            self.by_id[n] = cls
        return self.ids[cls]

    def known(self):
        return list(self.ids)

    def is_instance(self, oid_term, cls):
        """z3 condition: object ``oid`` is an instance of known class ``cls``
        (closed world over the registered classes) or of a symbolic class that
        Sub relates to it."""
        subs = [k for k in self.known() if isinstance(k, type) and issubclass(k, cls)]
        c = self.cls_of(oid_term)
        alts = [c == self.cid(k) for k in subs]
        if cls is object or any(issubclass(b, cls) or issubclass(cls, b) for b in self.open_bases):
            alts.append(z3.And(c > SYM_CLASS_BASE, self.Sub(c, z3.IntVal(self.cid(cls)))))
        return z3.Or(*alts)


SYM_CLASS_BASE = 100000     # class ids above this are symbolic (generated) classes
ALLOC_BASE = 10 ** 9        # object ids from here up are allocated during the run


# ----------------------------------------------------------------------------
# source access


_src_cache = {}


def func_ast(fn):
    """AST of a python function object, re-read from its source file."""
    if getattr(fn, '__pyvc_ast__', None) is not None:
        return fn.__pyvc_ast__
    key = (fn.__code__.co_filename, fn.__code__.co_firstlineno, fn.__qualname__)
    if key not in _src_cache:
        src = textwrap.dedent(inspect.getsource(fn))
        mod = ast.parse(src)
        node = mod.body[0]
        if not isinstance(node, (ast.FunctionDef, ast.Lambda)):
            # lambda assigned: find it
            for n in ast.walk(mod):
                if isinstance(n, ast.Lambda):
                    node = n
                    break
        ast.increment_lineno(node, fn.__code__.co_firstlineno - 1)
        _src_cache[key] = node
    return _src_cache[key]


def find_lambda(fn):
    """AST of a lambda function object."""
    src = inspect.getsource(fn)
    try:
        mod = ast.parse(textwrap.dedent(src))
    except SyntaxError:
        mod = ast.parse('(' + textwrap.dedent(src).strip().rstrip(',') + ')')
    lams = [n for n in ast.walk(mod) if isinstance(n, ast.Lambda)]
    want = fn.__code__.co_varnames[:fn.__code__.co_argcount]
    for n in lams:
        if tuple(a.arg for a in n.args.args) == tuple(want):
            return n
    raise Unsupported('lambda source not found')


class Frame:
    def __init__(self, fn, locals_, globals_, parent=None, defcls=None, name='?'):
        self.fn = fn
        self.locals = locals_
        self.globals = globals_
        self.parent = parent       # enclosing frame for closures
        self.defcls = defcls       # class in which the function was defined (for super())
        self.name = name
        self.cur_exc = None        # exception being handled (for bare raise)
        self.filename = '?'


class Obligation:
    def __init__(self, name, kind, status, detail=None, model=None, seconds=0.0, path=None):
        self.name = name
        self.kind = kind
        self.status = status        # 'discharged' | 'failed' | 'unknown'
        self.detail = detail
        self.model = model
        self.seconds = seconds
        self.path = path
        self.effort = 0             # z3 resource units spent on the obligation

    def to_json(self):
        return {'name': self.name, 'kind': self.kind, 'status': self.status,
                'detail': self.detail, 'model': self.model,
                'seconds': round(self.seconds, 4), 'path': self.path, 'effort': self.effort}


FEAS_TIMEOUT_MS = 600000      # backstop only: FEAS_RLIMIT is the budget that binds
FEAS_RLIMIT = 15000000


_DUMP_DIR = os.environ.get('PYVC_DUMP_QUERIES')
_DUMP_N = [0]


class FreshSolver:
    """Assertion stack whose every check() runs on a fresh z3 solver.

    Measured on this code base: z3's incremental mode (after push/pop) answers
    the mixed datatype/array/string queries of the engine 100-200x slower than
    a fresh solver given the same assertions, so nothing is kept between
    checks but the assertion stack itself."""

    def __init__(self, engine=None):
        self.stack = [[]]
        self.params = {}
        self.last = None
        self.engine = engine
        self._solver = None

    def set(self, k, v):
        if k == 'timeout':
            # no wall-clock timeouts: z3 starts a timer thread per check for them (thread stack mmap/munmap and
            # futex traffic were ~40% of the run time with 16 processes), and the budget that binds is the
            # deterministic `rlimit` anyway
            return
        self.params[k] = v

    def add(self, *fs):
        self.stack[-1].extend(fs)

    def push(self):
        self.stack.append([])

    def pop(self):
        self.stack.pop()

    def num_scopes(self):
        return len(self.stack) - 1

    def assertions(self):
        return [f for fr in self.stack for f in fr]

    def check(self, *extra):
        if self.engine is not None:
            self.engine.saturate(self.assertions() + list(extra))
        s = self._solver
        if s is None:
            s = self._solver = z3.Solver()
            for k, v in self.params.items():
                s.set(k, v)
            self._params_set = dict(self.params)
        else:
            s.reset()
            for k, v in self.params.items():
                s.set(k, v)
        for f in self.assertions():
            s.add(f)
        for f in extra:
            s.add(f)
        for f in vals.AXIOMS:
            s.add(f)
        self.last = s
        if _DUMP_DIR:
            _DUMP_N[0] += 1
            if _DUMP_N[0] % 40 == 0:
                open(os.path.join(_DUMP_DIR, 'q%05d.smt2' % _DUMP_N[0]), 'w').write(s.to_smt2())
        return s.check()

    def model(self):
        return self.last.model()

    def reason_unknown(self):
        return self.last.reason_unknown()


class Path:
    """One execution path: decision prefix, path condition, heap, solver."""

    def __init__(self, engine, prefix):
        self.engine = engine
        self.prefix = list(prefix)
        self.decisions = []
        self.labels = []
        self.pc = []
        self.solver = FreshSolver(engine)
        self.solver.set('timeout', FEAS_TIMEOUT_MS)
        # deterministic effort bound for feasibility / entailment queries: an
        # exhausted budget counts as "feasible" / "not entailed" (always the weaker
        # answer), independent of machine load
        self.solver.set('rlimit', FEAS_RLIMIT)
        self.solver.set('random_seed', 0)     # proofs never depend on VERIF_SEED (it seeds the sampling only)
        # feasibility / entailment queries run without array extensionality: cheaper,
        # and only ever weaker (more paths feasible, fewer facts entailed); proof
        # obligations are discharged by a fresh solver with the default theory
        self.solver.set('smt.array.extensional', False)
        self.heap = {}
        self.nalloc = 0
        self.fresh_n = 0
        self.obligs = []
        self.qdefs = []          # definitions of the Bools that abstract quantified formulas
        self.quants = []
        self.indices = []
        self.keyquants = []
        self.keylookups = []
        self.lits = [set()]
        self.lit_keep = []
        self.trace = []          # ghost effect trace (fs effects, emitted segments)
        self.ghost = {}

    def assume(self, cond):
        cond = z3.simplify(cond) if z3.is_expr(cond) else z3.BoolVal(bool(cond))
        if z3.is_true(cond):
            return
        self.pc.append(cond)
        self.solver.add(cond)
        self.engine._literals(cond, self.lits[0])

    def check(self, cond=None, timeout=None):
        s = self.solver
        if timeout:
            s.set('timeout', timeout)
        try:
            if cond is None:
                return s.check()
            return s.check(cond)
        finally:
            if timeout:
                s.set('timeout', FEAS_TIMEOUT_MS)

    def choose(self, conds, labels=None):
        """n-way branch.  ``conds`` are z3 Bools (exhaustiveness is the
        caller's business).  Returns the index taken on this path."""
        if self.engine.merge:
            raise Unsupported('fork in merge (specification) mode: %r' % (labels,))
        pos = len(self.decisions)
        n = len(conds)
        if pos < len(self.prefix):
            ev = self.prefix[pos]
            if not (isinstance(ev, tuple) and ev[0] == 'c') or ev[1] >= n:
                raise Unsupported('path replay diverged at event %d (%r, now a %d-way choice %r)'
                                  % (pos, ev, n, labels))
            k = ev[1]
        else:
            feas = []
            for k, c in enumerate(conds):
                cs = z3.simplify(c)
                if z3.is_false(cs):
                    continue
                if z3.is_true(cs):
                    feas.append(k)
                    continue
                r = self.check(cs)
                if r != z3.unsat:
                    feas.append(k)
            if not feas:
                raise PathAbort()
            force = getattr(self.engine, 'force_choices', None)
            ci = sum(1 for ev in self.decisions if isinstance(ev, tuple) and ev[0] == 'c') if force else 0
            if force and ci < len(force):
                # case split across processes: this run owns one bucket of the ci-th choice of every path
                # (bucket 0 = the first feasible alternative, bucket 1 = all the others)
                if force[ci] == 0:
                    feas = feas[:1]
                else:
                    feas = feas[1:]
                    if not feas:
                        raise PathAbort()
            k = feas[0]
            for alt in feas[1:]:
                self.engine.pending.append(self.decisions + [('c', alt)])
        self.decisions.append(('c', k))
        self.labels.append(labels[k] if labels else str(k))
        self.assume(conds[k])
        return k

    def memo(self, compute, fp=None):
        """A solver-dependent answer that steers the engine (entailment,
        feasibility): computed once, recorded in the event trace of the path
        and replayed from there, so that re-executing a decision prefix takes
        exactly the same steps even though more axiom instances exist by then
        (a recorded answer is never stronger than a recomputed one)."""
        pos = len(self.decisions)
        if pos < len(self.prefix):
            ev = self.prefix[pos]
            if not (isinstance(ev, tuple) and ev[0] == 'm'):
                raise Unsupported('path replay diverged at event %d (%r, now a memoised answer)' % (pos, ev))
            if fp is not None and len(ev) > 2 and ev[2] is not None and ev[2] != fp:
                raise Unsupported('path replay diverged at event %d: a different query is asked' % pos)
            v = ev[1]
        else:
            v = compute()
        self.decisions.append(('m', v, fp))
        return v

    def skip_events(self, n):
        """replay: jump over n recorded events (the cached pre-state evaluation)"""
        pos = len(self.decisions)
        self.decisions.extend(self.prefix[pos:pos + n])

    def branch(self, cond, label=''):
        """Two-way branch on a z3 Bool; returns python bool."""
        cs = z3.simplify(cond)
        if z3.is_true(cs):
            return True
        if z3.is_false(cs):
            return False
        k = self.choose([cs, z3.Not(cs)], [label + ':T', label + ':F'])
        return k == 0

    def quant(self, q, src=None):
        """Abstract a quantified formula by a fresh Bool: the feasibility
        solver only sees the Bool, ``prove`` adds its definition.  ``src`` (the
        length term of the collection the bound index ranges over) limits the
        instantiation to index terms of the same collection."""
        self.fresh_n += 1
        b = z3.Bool('q!%d' % self.fresh_n)
        self.qdefs.append(b == q)
        sid = vals.tid(z3.simplify(src)) if src is not None else None
        self.quants.append((b, q, sid))
        for (_, k, ksid) in self.indices:
            if sid is None or ksid is None or sid == ksid:
                self._instance(b, q, k)
        # one round of skolemisation: a witness constant for the case where a
        # universal is false / an existential is true; the witness is itself an
        # instantiation point of every other quantified fact
        if z3.is_quantifier(q) and q.num_vars() == 1 and q.var_sort(0) == z3.IntSort():
            sk = z3.Int('sk!%d' % self.fresh_n)
            body = z3.substitute_vars(q.body(), sk)
            fact = z3.Implies(z3.Not(b), z3.Not(body)) if q.is_forall() else z3.Implies(b, body)
            self._add_fact(fact)
            self.index(sk, src)
            self.engine.scan_instance(body)
        return b

    def _add_fact(self, fact):
        if self.engine.scopes:
            self.engine.scoped_assume(fact)
        else:
            self.solver.add(fact)
            self.pc.append(fact)

    def _instance(self, b, q, k):
        """consequence of ``b == q`` at index term k (q has one bound Int)"""
        if not z3.is_quantifier(q) or q.num_vars() != 1 or q.var_sort(0) != z3.IntSort():
            return
        body = z3.substitute_vars(q.body(), k)
        if q.is_forall():
            fact = z3.Implies(b, body)
        else:
            fact = z3.Implies(body, b)
        self._add_fact(fact)
        self.engine.scan_instance(body)

    def key_quant(self, b, i, body, dterm):
        """a universal fact over the keys of dict ``dterm`` (body is written in terms
        of the key dk[i]): instantiated at the keys the dict is looked up with"""
        self.keyquants.append((b, i, body, dterm, vals.tid(dterm)))
        for (did, kt) in self.keylookups:
            if did == vals.tid(dterm):
                self._key_instance(b, i, body, dterm, kt)

    def key_lookup(self, dterm, kt):
        dterm = z3.simplify(dterm)
        did = vals.tid(dterm)
        kt = z3.simplify(kt)
        if any(d == did and k.eq(kt) for (d, k) in self.keylookups):
            return
        self.keylookups.append((did, kt))
        for (b, i, body, dt, d2) in list(self.keyquants):
            if d2 == did:
                self._key_instance(b, i, body, dt, kt)

    def _key_instance(self, b, i, body, dterm, kt):
        key_i = z3.simplify(z3.Select(Val.dk(dterm), i))
        inst = z3.substitute(body, (key_i, kt))
        present = z3.Select(Val.dm(dterm), vals.KeyId(kt)) != Val.VAbsent
        self._add_fact(z3.Implies(z3.And(b, present), inst))

    def index(self, k, src=None):
        """register an index term at which the quantified facts (over the same
        collection) are instantiated"""
        sid = vals.tid(z3.simplify(src)) if src is not None else None
        kid = vals.tid(k)
        if any(x == kid and y == sid for (x, _, y) in self.indices):
            return
        self.indices.append((kid, k, sid))
        for (b, q, qsid) in list(self.quants):
            if sid is None or qsid is None or sid == qsid:
                self._instance(b, q, k)

    def fresh(self, name, sort=None):
        self.fresh_n += 1
        return z3.Const('%s!%d' % (name, self.fresh_n), sort if sort is not None else vals.VS)

    def heap_arr(self, attr):
        if attr not in self.heap:
            # an attribute first touched after a havoc point (yield) starts from the state of that point
            frame = set(getattr(self.engine, 'yield_frame', None) or ())
            gen = 0 if attr in frame else getattr(self, 'havoc_gen', 0)
            self.heap[attr] = z3.Const('H%d_%s' % (gen, attr), z3.ArraySort(z3.IntSort(), vals.VS))
        return self.heap[attr]

    def alloc(self, cls_id_term):
        oid = z3.IntVal(ALLOC_BASE + self.nalloc)
        self.nalloc += 1
        self.assume(self.engine.classes.cls_of(oid) == cls_id_term)
        return oid


# ----------------------------------------------------------------------------


class Engine:
    """Symbolic interpreter + path explorer."""

    MAX_PATHS = 4000
    INLINE_PACKAGES = ('stone', 'spec', 'contracts', 'pyvc', 'lemmas')
    TIME_BUDGET = 6 * 3600      # backstop only (wall clock must not decide a verdict); MAX_PATHS is the bound
    MAX_DEPTH = 14

    def __init__(self, seed=0):
        self.seed = seed
        self.classes = ClassTable()
        self.pending = []
        self.contracts = {}          # python function object -> contract
        self.models = {}             # python callable -> model function(engine, args, kwargs)
        self.singletons = {}         # id(obj) -> Val term
        self.specs_inline_depth = 0
        self.inlined = set()
        self.assumptions = set()
        self.path = None
        self.depth = 0
        self.merge = 0               # >0: merge mode (spec evaluation): no forking
        self.fail_conds = None
        self.uf_cache = {}
        self.recursive_specs = {}
        self.attr_overrides = {}     # (cls, attr) -> hook
        self._init_merge()
        from . import builtins_model
        builtins_model.install(self)

    # ------------------------------------------------------------------ util
    def unsupported(self, node, what):
        ln = getattr(node, 'lineno', '?')
        raise Unsupported('%s at %s:%s' % (what, self.cur_file(), ln))

    def cur_file(self):
        return getattr(self, '_cur_file', '?')

    def register_singleton(self, obj, term):
        self.singletons[id(obj)] = (obj, term)

    # ---------------------------------------------------------- lifting
    def lift(self, sv):
        """SV -> z3 Val term."""
        if isinstance(sv, T):
            return sv.t
        if isinstance(sv, C):
            v = sv.v
            if id(v) in self.singletons and self.singletons[id(v)][0] is v:
                return self.singletons[id(v)][1]
            if isinstance(v, type):
                return Val.VClass(z3.IntVal(self.classes.cid(v)))
            try:
                return vals.py_to_val(v)
            except TypeError:
                pass
            if callable(v):
                return Val.VFunc(z3.IntVal(self._obj_id(v)))
            return Val.VOther(z3.IntVal(self._obj_id(v)))
        if isinstance(sv, (STuple, SList)):
            arr = z3.K(z3.IntSort(), Val.VAbsent)
            for k, e in enumerate(sv.items):
                arr = z3.Store(arr, k, self.lift(e))
            ctor = Val.VTuple if isinstance(sv, STuple) else Val.VList
            return ctor(z3.IntVal(len(sv.items)), arr)
        if isinstance(sv, SDict):
            ka = z3.K(z3.IntSort(), Val.VAbsent)
            m = z3.K(z3.IntSort(), Val.VAbsent)
            for k, (kk, vv) in enumerate(sv.d.items()):
                kt = self.lift(kk) if isinstance(kk, SV) else vals.py_to_val(kk)
                ka = z3.Store(ka, k, kt)
                m = z3.Store(m, vals.KeyId(kt), self.lift(vv))
            return Val.VDict(z3.IntVal(len(sv.d)), ka, m)
        raise Unsupported('cannot lift %r to a term' % (sv,))

    _objids = {}

    def _obj_id(self, v):
        k = id(v)
        if k not in Engine._objids:
            Engine._objids[k] = (len(Engine._objids) + 1, v)
        return Engine._objids[k][0]

    # ---------------------------------------------------------- truthiness
    def saturate(self, formulas):
        """E-matching by hand: find applications of trigger symbols in the given
        formulas (and in the axioms this produces) and let their handlers add
        the matching axiom instances."""
        trig = getattr(self, 'triggers', None)
        if not trig:
            return
        seen = vals.SAT_SEEN
        work = []
        for f in formulas:
            if f.get_id() not in seen:
                work.append(f)
                fs = z3.simplify(f)
                if not fs.eq(f):
                    work.append(fs)
        rounds = 0
        n_ax = vals.SAT_NAX[0]
        while True:
            stack = work
            while stack:
                t = stack.pop()
                k = t.get_id()
                if k in seen:
                    continue
                seen.add(k)
                vals.KEEP.append(t)
                if z3.is_app(t):
                    h = trig.get(t.decl().name())
                    if h is not None:
                        h(t)
                    stack.extend(t.children())
                elif z3.is_quantifier(t):
                    stack.append(t.body())
            new = vals.AXIOMS[n_ax:]
            n_ax = len(vals.AXIOMS)
            vals.SAT_NAX[0] = n_ax
            rounds += 1
            if not new or rounds > 6:
                break
            work = list(new)

    def scan_instance(self, body):
        """A new instance of a quantified fact may contain applications of
        symbols that carry axiom schemas of their own (ClassAttr: inheritance
        and slot axioms; FieldIndex: an index into the field list): instantiate
        those schemas for the new terms (what E-matching would do)."""
        hooks = getattr(self, 'instance_hooks', None)
        if not hooks:
            return
        seen = self.path.ghost.setdefault('scan_seen', set())
        stack = [body]
        while stack:
            t = stack.pop()
            k = vals.tid(t)
            if k in seen:
                continue
            seen.add(k)
            if z3.is_app(t):
                name = t.decl().name()
                h = hooks.get(name)
                if h is not None:
                    h(t)
                stack.extend(t.children())
            elif z3.is_quantifier(t):
                stack.append(t.body())

    def axiom(self, fact):
        """A universally valid fact about uninterpreted symbols (instance of an
        axiom schema): holds on every path and in every scope."""
        vals._axiom(('ax', vals.tid(fact)), fact)

    def strlen(self, s):
        n = vals.strlen(s)
        for ax in vals.strlen_axioms(s):
            self.axiom(ax)
        return n

    def truthy_term(self, t):
        V = Val
        if self.must(V.is_VStr(t)):
            return self.strlen(V.s(t)) > 0
        if self.must(V.is_VNone(t)):
            return z3.BoolVal(False)
        if self.must(V.is_VObj(t)) or self.must(V.is_VOther(t)):
            return z3.BoolVal(True)
        if self.must(V.is_VInt(t)):
            return V.i(t) != 0
        if self.must(z3.Or(V.is_VNone(t), V.is_VStr(t))):
            return z3.And(V.is_VStr(t), self.strlen(V.s(t)) > 0)
        if self.must(z3.Or(V.is_VNone(t), V.is_VInt(t))):
            return z3.And(V.is_VInt(t), V.i(t) != 0)
        if self.must(z3.Or(V.is_VNone(t), V.is_VOther(t), V.is_VObj(t))):
            return z3.Not(V.is_VNone(t))
        return z3.If(V.is_VNone(t), False,
               z3.If(V.is_VBool(t), V.b(t),
               z3.If(V.is_VInt(t), V.i(t) != 0,
               z3.If(V.is_VFloat(t), z3.Not(z3.fpIsZero(V.f(t))),
               z3.If(V.is_VStr(t), self.strlen(V.s(t)) > 0,
               z3.If(V.is_VBytes(t), self.strlen(V.bs(t)) > 0,
               z3.If(V.is_VList(t), V.llen(t) > 0,
               z3.If(V.is_VTuple(t), V.tlen(t) > 0,
               z3.If(V.is_VDict(t), V.dn(t) > 0,
               z3.If(V.is_VSet(t), V.sn(t) > 0,
               True))))))))))

    def truth(self, sv):
        """SV -> python bool (concrete) or z3 Bool."""
        if isinstance(sv, C):
            return bool(sv.v)
        if isinstance(sv, T):
            if z3.is_app(sv.t) and sv.t.decl().name() == 'VBool':
                return sv.t.arg(0)
            return self.truthy_term(sv.t)
        if isinstance(sv, (STuple, SList)):
            return len(sv.items) > 0
        if isinstance(sv, SDict):
            return len(sv.d) > 0
        if isinstance(sv, (SExc, SBound, SClosure, SBuiltinMethod)):
            return True
        raise Unsupported('truth of %r' % (sv,))

    def decide(self, sv, label=''):
        """Branch on the truth of an SV; returns python bool."""
        b = self.truth(sv)
        if isinstance(b, bool):
            return b
        if self.merge:
            raise Unsupported('branch on symbolic condition in merge mode')
        return self.path.branch(b, label)

    def must(self, cond):
        """True iff ``cond`` is entailed by the path condition (and the merge
        scopes); used to specialise terms by kind before building them."""
        if isinstance(cond, bool):
            return cond
        c = z3.simplify(cond)
        if z3.is_true(c):
            return True
        if z3.is_false(c):
            return False
        if self.path is None:
            return False
        return self.path.memo(lambda: self._must(c), c.hash())

    def _must(self, c):
        if self._known(c):
            return True
        skey = tuple(vals.tid(x) for x in self.scopes)
        cache = self.path.ghost.setdefault(('must', skey), {})
        k = vals.tid(c)
        if k in cache:
            return True
        ncache = self.path.ghost.setdefault(('mustnot', skey, len(self.path.pc)), {})
        if k in ncache:
            return False
        r = self.path.check(z3.Not(c)) == z3.unsat
        if r:
            cache[k] = c
        else:
            ncache[k] = c
        return r

    def _literals(self, f, out):
        if z3.is_and(f):
            for ch in f.children():
                self._literals(ch, out)
        else:
            out.add(vals.tid(f))
            self.path.lit_keep.append(f)

    def note_fact(self, f):
        """index the literals of an assumed formula for syntactic entailment"""
        self._literals(f, self.path.lits[-1])

    def _known(self, c):
        lits = self.path.lits
        def has(x):
            i = vals.tid(x)
            return any(i in s for s in lits)
        def rec(x, depth):
            if has(x):
                return True
            if depth > 3:
                return False
            if z3.is_and(x):
                return all(rec(ch, depth + 1) for ch in x.children())
            if z3.is_or(x):
                return any(rec(ch, depth + 1) for ch in x.children())
            return False
        return rec(c, 0)

    def bool_sv(self, b):
        if isinstance(b, bool):
            return C(b)
        b = z3.simplify(b)
        if z3.is_true(b):
            return C(True)
        if z3.is_false(b):
            return C(False)
        return T(Val.VBool(b))

    # ---------------------------------------------------------- raising
    def raise_(self, cls, *args):
        raise PyRaise(SExc(cls, [a if isinstance(a, SV) else C(a) for a in args]))

    def fail_if(self, cond, exc_cls, label=''):
        """Implicit failure: if ``cond`` (z3 Bool / python bool) holds the
        operation raises ``exc_cls``."""
        if isinstance(cond, bool):
            if cond:
                self.raise_(exc_cls, 'implicit:' + label)
            return
        cond = z3.simplify(cond)
        if z3.is_false(cond):
            return
        if z3.is_true(cond):
            self.raise_(exc_cls, 'implicit:' + label)
        if self.merge:
            # in merge mode failure conditions are collected, not forked
            if self.fail_conds is not None and not self.must(z3.Not(cond)):
                # (the scope conditions themselves, not their names: the result may end up
                # inside a quantifier body that is instantiated at other indices)
                g = z3.And(*(self.scopes + [cond])) if self.scopes else cond
                self.fail_conds.append((g, exc_cls, label))
            return
        if self.must(z3.Not(cond)):
            return
        if self.path.branch(cond, 'fail:' + label):
            self.raise_(exc_cls, 'implicit:' + label)

    # ---------------------------------------------------------- exploration
    def explore(self, run, on_path):
        """Enumerate all paths of ``run(path)``; ``on_path(path, outcome)`` is
        called for each finished path with outcome ('return', SV) or
        ('raise', SExc)."""
        self.pending = [[]]
        npaths = 0
        t_start = time.time()
        while self.pending:
            prefix = self.pending.pop()
            npaths += 1
            if time.time() - t_start > self.TIME_BUDGET:
                raise Unsupported('time budget of %ds exceeded after %d paths' % (self.TIME_BUDGET, npaths))
            if npaths > self.MAX_PATHS:
                raise Unsupported('more than %d paths' % self.MAX_PATHS)
            p = Path(self, prefix)
            self.path = p
            self.depth = 0
            try:
                try:
                    v = run(p)
                    outcome = ('return', v)
                except PyRaise as e:
                    outcome = ('raise', e.exc)
                on_path(p, outcome)
            except PathAbort:
                continue
        return npaths

    # ---------------------------------------------------------- functions
    def call_function(self, fn, args, kwargs, recv_defcls=None, node=None):
        """Call a python function object on SV arguments."""
        if fn in self.models:
            return self.models[fn](self, args, kwargs)
        con = self.contracts.get(fn)
        if con is not None and not getattr(con, '_inline_now', False):
            return con.apply(self, args, kwargs)
        if isinstance(fn, type):
            return self.instantiate(fn, args, kwargs)
        if not isinstance(fn, types.FunctionType):
            raise Unsupported('call of %r' % (fn,))
        mod = getattr(fn, '__module__', '') or ''
        if not (mod.split('.')[0] in self.INLINE_PACKAGES):
            raise Unsupported('no model for %s.%s' % (mod, fn.__qualname__))
        if self.merge:
            return self._spec_call(fn, args, kwargs)
        return self.inline(fn, args, kwargs, recv_defcls)

    def defining_class(self, fn):
        qn = fn.__qualname__.split('.')
        if len(qn) < 2 or qn[-2] == '<locals>':
            return None
        mod = inspect.getmodule(fn)
        obj = mod
        try:
            for part in qn[:-1]:
                obj = getattr(obj, part)
        except AttributeError:
            return None
        return obj if isinstance(obj, type) else None

    def bind_args(self, fnode_args, fn, args, kwargs):
        a = fnode_args
        params = [x.arg for x in a.posonlyargs + a.args]
        loc = {}
        if len(args) > len(params) and not a.vararg:
            self.raise_(TypeError, 'too many positional arguments')
        for name, v in zip(params, args):
            loc[name] = v
        if a.vararg:
            loc[a.vararg.arg] = STuple(args[len(params):])
        kw = dict(kwargs)
        defaults = list(a.defaults)
        ndef = len(defaults)
        for idx, name in enumerate(params):
            if name in loc:
                if name in kw:
                    self.raise_(TypeError, 'multiple values for argument')
                continue
            if name in kw:
                loc[name] = kw.pop(name)
                continue
            di = idx - (len(params) - ndef)
            if di >= 0:
                loc[name] = self._default_value(fn, defaults[di], idx, params)
            else:
                self.raise_(TypeError, 'missing argument %s' % name)
        for k, d in zip(a.kwonlyargs, a.kw_defaults):
            if k.arg in kw:
                loc[k.arg] = kw.pop(k.arg)
            elif d is not None:
                loc[k.arg] = self._default_value(fn, d, None, None)
            else:
                self.raise_(TypeError, 'missing kw-only argument')
        if kw:
            if a.kwarg:
                loc[a.kwarg.arg] = SDict(kw)
            else:
                self.raise_(TypeError, 'unexpected keyword argument')
        elif a.kwarg:
            loc[a.kwarg.arg] = SDict({})
        return loc

    def _default_value(self, fn, dnode, idx, params):
        if isinstance(fn, types.FunctionType) and fn.__defaults__ is not None and idx is not None:
            nd = len(fn.__defaults__)
            di = idx - (len(params) - nd)
            if 0 <= di < nd:
                return C(fn.__defaults__[di])
        if isinstance(dnode, ast.Constant):
            return C(dnode.value)
        raise Unsupported('default value expression')

    def inline(self, fn, args, kwargs, defcls=None):
        self.depth += 1
        if self.depth > self.MAX_DEPTH:
            raise Unsupported('inline depth exceeded at %s' % fn.__qualname__)
        try:
            node = func_ast(fn)
            self.inlined.add('%s:%s' % (fn.__module__, fn.__qualname__))
            if defcls is None:
                defcls = self.defining_class(fn)
            if isinstance(node, ast.Lambda):
                node = find_lambda(fn)
                loc = self.bind_args(node.args, fn, args, kwargs)
                fr = Frame(fn, loc, fn.__globals__, None, defcls, fn.__qualname__)
                self._bind_closure(fn, fr)
                return self.eval(node.body, fr)
            loc = self.bind_args(node.args, fn, args, kwargs)
            fr = Frame(fn, loc, fn.__globals__, None, defcls, fn.__qualname__)
            fr.filename = fn.__code__.co_filename
            self._bind_closure(fn, fr)
            return self.run_body(node.body, fr)
        finally:
            self.depth -= 1

    def _bind_closure(self, fn, fr):
        if fn.__closure__:
            for name, cell in zip(fn.__code__.co_freevars, fn.__closure__):
                if name == '__class__':
                    continue
                try:
                    fr.locals.setdefault(name, self.wrap(cell.cell_contents))
                except ValueError:
                    pass

    def wrap(self, obj):
        return obj if isinstance(obj, SV) else C(obj)

    def run_body(self, body, fr):
        old = getattr(self, '_cur_file', '?')
        self._cur_file = fr.filename
        try:
            self.exec_block(body, fr)
        except _Return as r:
            return r.v
        finally:
            self._cur_file = old
        return C(None)

    def call_closure(self, clo, args, kwargs):
        node = clo.node
        self.depth += 1
        try:
            if isinstance(node, ast.Lambda):
                loc = self.bind_args(node.args, None, args, kwargs)
                fr = Frame(None, loc, clo.frame.globals, clo.frame, clo.frame.defcls, '<lambda>')
                fr.filename = clo.frame.filename
                return self.eval(node.body, fr)
            loc = self.bind_args(node.args, None, args, kwargs)
            fr = Frame(None, loc, clo.frame.globals, clo.frame, clo.frame.defcls, node.name)
            fr.filename = clo.frame.filename
            return self.run_body(node.body, fr)
        finally:
            self.depth -= 1

    # ---------------------------------------------------------- calling SVs
    def call(self, f, args, kwargs=None, node=None):
        kwargs = kwargs or {}
        if isinstance(f, SBound):
            return self.call_function(f.func, [f.recv] + list(args), kwargs, f.defcls, node)
        if isinstance(f, SClosure):
            return self.call_closure(f, args, kwargs)
        if isinstance(f, SBuiltinMethod):
            from . import builtins_model
            return builtins_model.call_method(self, f.recv, f.name, args, kwargs)
        if isinstance(f, C):
            v = f.v
            if isinstance(v, types.MethodType):
                return self.call_function(v.__func__, [self.wrap(v.__self__)] + list(args), kwargs, None, node)
            try:
                if v in self.models:
                    return self.models[v](self, args, kwargs)
            except TypeError:
                pass
            if isinstance(v, type) and issubclass(v, BaseException):
                return SExc(v, args, dict(kwargs))
            if isinstance(v, type) or isinstance(v, types.FunctionType):
                return self.call_function(v, list(args), kwargs, None, node)
            if all(isinstance(a, C) for a in args) and all(isinstance(a, C) for a in kwargs.values()) \
                    and getattr(v, '__module__', None) in ('builtins', 'math', '_functools', 'functools'):
                try:
                    return C(v(*[a.v for a in args], **{k: a.v for k, a in kwargs.items()}))
                except Exception as e:      # native failure of a concrete builtin call
                    self.raise_(type(e), 'native')
            raise Unsupported('call of concrete object %r' % (v,))
        if isinstance(f, T):
            hook = getattr(self, 'call_symbolic', None)
            if hook:
                return hook(f, args, kwargs)
        raise Unsupported('call of %r' % (f,))

    def instantiate(self, cls, args, kwargs):
        """``cls(*args)`` for a class of the tree: allocate + run __init__."""
        if issubclass(cls, BaseException):
            return SExc(cls, args, dict(kwargs))
        oid = self.path.alloc(z3.IntVal(self.classes.cid(cls)))
        obj = T(Val.VObj(oid))
        init = inspect.getattr_static(cls, '__init__', None)
        # all slots start absent
        for name in self.instance_slots(cls):
            arr = self.path.heap_arr(name)
            self.path.heap[name] = z3.Store(arr, oid, Val.VAbsent)
        if isinstance(init, types.FunctionType):
            self.call_function(init, [obj] + list(args), kwargs, None)
        elif args or kwargs:
            self.raise_(TypeError, 'object() takes no arguments')
        return obj

    def instance_slots(self, cls):
        out = []
        for k in cls.__mro__:
            s = k.__dict__.get('__slots__')
            if s:
                out.extend([s] if isinstance(s, str) else list(s))
        return out

    # ---------------------------------------------------------- statements
    def exec_block(self, stmts, fr):
        for st in stmts:
            self.exec_stmt(st, fr)

    def st_With(self, st, fr):
        """`with open(path, mode) as f:` only: the file object is a ghost value whose write() is recorded"""
        if len(st.items) != 1:
            self.unsupported(st, 'with statement with several items')
        item = st.items[0]
        cm = self.eval(item.context_expr, fr)
        if not isinstance(cm, SFile):
            self.unsupported(st, 'with statement over %r' % (type(cm).__name__,))
        if item.optional_vars is not None:
            if not isinstance(item.optional_vars, ast.Name):
                self.unsupported(st, 'with ... as <pattern>')
            fr.locals[item.optional_vars.id] = cm
        self.exec_block(st.body, fr)

    def exec_stmt(self, st, fr):
        m = getattr(self, 'st_' + type(st).__name__, None)
        if m is None:
            self.unsupported(st, 'statement %s' % type(st).__name__)
        return m(st, fr)

    def st_Expr(self, st, fr):
        if isinstance(st.value, ast.Constant):
            return      # docstring
        v = st.value
        if isinstance(v, ast.Yield) and v.value is None:
            # a bare `yield` of a generator-based context manager: control goes to the body of the caller's
            # `with` block and (on normal completion of that body) comes back here.  Recorded in the ghost
            # trace; the body of the with block is outside the function under contract.
            self.path.trace.append(('yield',))
            self.assumptions.add('context-manager protocol: the code after `yield` runs after the with-body completed normally')
            # the with-body is arbitrary caller code: every object attribute may have changed, except those the
            # contract declares stable (`yield_frame`)
            frame = set(getattr(self, 'yield_frame', None) or ())
            self.path.nhavoc = getattr(self.path, 'nhavoc', 0) + 1
            for attr in list(self.path.heap):
                if attr not in frame:
                    self.path.heap[attr] = z3.Const('H%d_%s' % (self.path.nhavoc, attr),
                                                    z3.ArraySort(z3.IntSort(), vals.VS))
            self.path.havoc_gen = self.path.nhavoc
            return
        if isinstance(v, ast.Call) and isinstance(v.func, ast.Attribute) and v.func.attr == 'append' \
                and isinstance(v.func.value, ast.Attribute) and len(v.args) == 1 and not v.keywords:
            owner = self.eval(v.func.value.value, fr)
            if isinstance(owner, T):
                # o.attr.append(x) on a list held in an object attribute: the attribute is
                # updated functionally (the list is owned by the object: no alias is mutated)
                cur = self.getattr_(owner, v.func.value.attr, v.func.value)
                item = self.eval(v.args[0], fr)
                ct = self.lift(cur)
                self.fail_if(z3.Not(Val.is_VList(ct)), AttributeError, 'append on a non-list')
                n = Val.llen(ct)
                new = Val.VList(n + 1, z3.Store(Val.larr(ct), n, self.lift(item)))
                self.assumptions.add('lists / dicts held in object attributes are owned by the object (no aliases)')
                self.setattr_(owner, v.func.value.attr, T(new), v.func.value)
                return
        if isinstance(v, ast.Call) and isinstance(v.func, ast.Attribute) and v.func.attr == 'sort' \
                and isinstance(v.func.value, ast.Attribute) and not v.args:
            owner = self.eval(v.func.value.value, fr)
            if isinstance(owner, T):
                # o.attr.sort() / o.attr.sort(key=lambda x: x.<name>) on a list held in an object attribute: the
                # attribute is replaced by sorted(old) -- an uninterpreted function of the old list and the key, of
                # which only "is sorted by that key" and "is a permutation of the old list" are known (library axiom SORT)
                key = None
                for kw in v.keywords:
                    if kw.arg == 'key' and isinstance(kw.value, ast.Lambda) and len(kw.value.args.args) == 1 \
                            and isinstance(kw.value.body, ast.Attribute) and isinstance(kw.value.body.value, ast.Name) \
                            and kw.value.body.value.id == kw.value.args.args[0].arg:
                        key = kw.value.body.attr
                    else:
                        self.unsupported(st, 'list.sort with this kind of argument')
                cur = self.getattr_(owner, v.func.value.attr, v.func.value)
                ct = self.lift(cur)
                self.fail_if(z3.Not(Val.is_VList(ct)), AttributeError, 'sort on a non-list')
                kname = key if key is not None else '<natural order>'
                f = z3.Function('SortedList_' + kname, vals.VS, vals.VS)
                new = f(ct)
                self.axiom(z3.And(Val.is_VList(new), Val.llen(new) == Val.llen(ct)))
                self.axiom(z3.Function('IsSortedBy_' + kname, vals.VS, z3.BoolSort())(new))
                self.axiom(z3.Function('PermutationOf', vals.VS, vals.VS, z3.BoolSort())(new, ct))
                self.assumptions.add('library axiom SORT: list.sort(key) leaves a permutation of the list that is sorted by the key')
                self.setattr_(owner, v.func.value.attr, T(new), v.func.value)
                return
        if isinstance(v, ast.Call) and isinstance(v.func, ast.Attribute) and v.func.attr == 'update' \
                and isinstance(v.func.value, ast.Name) and len(v.args) == 1 and not v.keywords:
            cur = self.eval(v.func.value, fr)
            if isinstance(cur, (SDict, T)):
                arg = self.eval(v.args[0], fr)
                if isinstance(arg, T) or isinstance(cur, T):
                    # d.update(m) on a local dict with a symbolic operand: functional update + rebind
                    from . import builtins_model
                    a = cur if isinstance(cur, T) else T(self.lift(cur))
                    b = arg if isinstance(arg, T) else T(self.lift(arg))
                    if not isinstance(cur, T):
                        pass
                    self.fail_if(z3.Not(Val.is_VDict(b.t)), TypeError, 'update with a non-mapping')
                    self.assign(v.func.value, builtins_model.dict_update(self, a, b), fr)
                    return
                if isinstance(cur, SDict) and isinstance(arg, SDict):
                    cur.d.update(arg.d)
                    return
        self.eval(st.value, fr)

    def st_Pass(self, st, fr):
        pass

    def st_Return(self, st, fr):
        raise _Return(self.eval(st.value, fr) if st.value is not None else C(None))

    def st_Break(self, st, fr):
        raise _Break()

    def st_Continue(self, st, fr):
        raise _Continue()

    def st_Assign(self, st, fr):
        v = self.eval(st.value, fr)
        for tgt in st.targets:
            self.assign(tgt, v, fr)

    def st_AnnAssign(self, st, fr):
        if st.value is not None:
            self.assign(st.target, self.eval(st.value, fr), fr)

    def st_AugAssign(self, st, fr):
        load = ast.copy_location(_as_load(st.target), st)
        cur = self.eval(load, fr)
        rhs = self.eval(st.value, fr)
        self.assign(st.target, self.binop(st.op, cur, rhs, st), fr)

    def assign(self, tgt, v, fr):
        if isinstance(tgt, ast.Name):
            fr.locals[tgt.id] = v
        elif isinstance(tgt, (ast.Tuple, ast.List)):
            items = self.unpack(v, len(tgt.elts), tgt)
            for t, x in zip(tgt.elts, items):
                self.assign(t, x, fr)
        elif isinstance(tgt, ast.Attribute):
            obj = self.eval(tgt.value, fr)
            self.setattr_(obj, tgt.attr, v, tgt)
        elif isinstance(tgt, ast.Subscript):
            obj = self.eval(tgt.value, fr)
            idx = self.eval(tgt.slice, fr)
            if isinstance(obj, T) and isinstance(tgt.value, ast.Attribute):
                # o.attr[k] = v on a dict held in an object attribute: functional update of the attribute
                from . import builtins_model
                owner = self.eval(tgt.value.value, fr)
                if isinstance(owner, T):
                    self.assumptions.add('lists / dicts held in object attributes are owned by the object (no aliases)')
                    self.setattr_(owner, tgt.value.attr, builtins_model.dict_store(self, obj, idx, v), tgt.value)
                    return
            if isinstance(obj, T) and isinstance(tgt.value, ast.Name):
                # item store on a symbolic dict held in a local: functional update + rebind
                # (sound while the dict is not aliased; it is created in the function)
                from . import builtins_model
                self.assign(tgt.value, builtins_model.dict_store(self, obj, idx, v), fr)
                return
            if isinstance(obj, SDict) and not isinstance(idx, C) and isinstance(tgt.value, ast.Name):
                from . import builtins_model
                self.assign(tgt.value, builtins_model.dict_store(self, T(self.lift(obj)), idx, v), fr)
                return
            self.setitem(obj, idx, v, tgt)
        else:
            self.unsupported(tgt, 'assignment target')

    def unpack(self, v, n, node):
        if isinstance(v, (STuple, SList, SIter)):
            if len(v.items) != n:
                self.raise_(ValueError, 'unpack')
            return v.items
        if isinstance(v, C) and isinstance(v.v, (tuple, list)):
            if len(v.v) != n:
                self.raise_(ValueError, 'unpack')
            return [C(x) for x in v.v]
        if isinstance(v, T):
            t = v.t
            isl, ist = Val.is_VList(t), Val.is_VTuple(t)
            self.fail_if(z3.Not(z3.Or(isl, ist)), TypeError, 'unpack non-sequence')
            ln = z3.If(isl, Val.llen(t), Val.tlen(t))
            arr = z3.If(isl, Val.larr(t), Val.tarr(t))
            self.fail_if(ln != n, ValueError, 'unpack arity')
            return [T(z3.Select(arr, k)) for k in range(n)]
        self.unsupported(node, 'unpack of %r' % (v,))

    def st_If(self, st, fr):
        c = self.eval(st.test, fr)
        if self.decide(c, 'if@%s' % st.lineno):
            self.exec_block(st.body, fr)
        else:
            self.exec_block(st.orelse, fr)

    def st_Assert(self, st, fr):
        c = self.eval(st.test, fr)
        if not self.decide(c, 'assert@%s' % st.lineno):
            args = []
            if st.msg is not None:
                args = [self.eval(st.msg, fr)]
            raise PyRaise(SExc(AssertionError, args))

    def st_Raise(self, st, fr):
        if st.exc is None:
            f = fr
            while f is not None and f.cur_exc is None:
                f = f.parent
            if f is None:
                self.raise_(RuntimeError, 'No active exception to reraise')
            raise PyRaise(f.cur_exc)
        e = self.eval(st.exc, fr)
        if isinstance(e, C) and isinstance(e.v, type) and issubclass(e.v, BaseException):
            e = SExc(e.v, [])
        if not isinstance(e, SExc):
            self.unsupported(st, 'raise of non-exception %r' % (e,))
        raise PyRaise(e)

    def st_Try(self, st, fr):
        try:
            try:
                self.exec_block(st.body, fr)
            except PyRaise as pr:
                exc = pr.exc
                for h in st.handlers:
                    if self.handler_matches(h, exc, fr):
                        if h.name:
                            fr.locals[h.name] = exc
                        old = fr.cur_exc
                        fr.cur_exc = exc
                        try:
                            self.exec_block(h.body, fr)
                        finally:
                            fr.cur_exc = old
                        break
                else:
                    raise
            else:
                self.exec_block(st.orelse, fr)
        finally:
            if st.finalbody:
                self.exec_block(st.finalbody, fr)

    def handler_matches(self, h, exc, fr):
        if h.type is None:
            return True
        t = self.eval(h.type, fr)
        if isinstance(t, STuple):
            classes = [x.v for x in t.items]
        elif isinstance(t, C) and isinstance(t.v, tuple):
            classes = list(t.v)
        elif isinstance(t, C):
            classes = [t.v]
        else:
            self.unsupported(h, 'handler type')
        return any(issubclass(exc.cls, k) for k in classes)

    def st_FunctionDef(self, st, fr):
        if st.decorator_list:
            self.unsupported(st, 'decorated local function')
        fr.locals[st.name] = SClosure(st, fr)

    def st_Delete(self, st, fr):
        for tgt in st.targets:
            if isinstance(tgt, ast.Attribute):
                obj = self.eval(tgt.value, fr)
                self.delattr_(obj, tgt.attr, tgt)
            elif isinstance(tgt, ast.Name):
                fr.locals.pop(tgt.id, None)
            else:
                self.unsupported(tgt, 'del target')

    def st_For(self, st, fr):
        it = self.eval(st.iter, fr)
        items = self.iter_items(it, st)
        if items is None:
            hook = getattr(self, 'symbolic_for', None)
            if hook is None:
                self.unsupported(st, 'for over symbolic sequence (no invariant)')
            return hook(st, it, fr)
        broke = False
        for x in items:
            self.assign(st.target, x, fr)
            try:
                self.exec_block(st.body, fr)
            except _Break:
                broke = True
                break
            except _Continue:
                continue
        if not broke:
            self.exec_block(st.orelse, fr)

    def st_While(self, st, fr):
        hook = getattr(self, 'symbolic_while', None)
        n = 0
        while True:
            c = self.eval(st.test, fr)
            b = self.truth(c)
            if not isinstance(b, bool):
                if hook is None:
                    self.unsupported(st, 'while with symbolic condition (no invariant)')
                return hook(st, fr)
            if not b:
                break
            n += 1
            if n > 64:
                self.unsupported(st, 'while unrolled more than 64 times')
            try:
                self.exec_block(st.body, fr)
            except _Break:
                return
            except _Continue:
                continue
        self.exec_block(st.orelse, fr)

    def iter_items(self, it, node):
        """Concrete-shape iteration: list of SVs, or None if symbolic."""
        if isinstance(it, (STuple, SList, SIter)):
            return list(it.items)
        if isinstance(it, SDict):
            return [k if isinstance(k, SV) else C(k) for k in it.d.keys()]
        if isinstance(it, C):
            v = it.v
            if isinstance(v, (list, tuple, set, frozenset, dict, range, str)):
                if isinstance(v, (set, frozenset)):
                    self.assumptions.add('iteration over a concrete set constant in sorted order')
                    v = sorted(v, key=repr)
                return [C(x) for x in v]
            self.unsupported(node, 'iteration over %r' % (v,))
        if isinstance(it, (SItems, SQuant, SRange)):
            return None
        if isinstance(it, T):
            t = z3.simplify(it.t)
            # list / tuple with concrete length
            if z3.is_app(t) and t.decl().name() in ('VList', 'VTuple') and z3.is_int_value(t.arg(0)):
                n = t.arg(0).as_long()
                return [T(z3.simplify(z3.Select(t.arg(1), k))) for k in range(n)]
            return None
        self.unsupported(node, 'iteration over %r' % (it,))

    # ---------------------------------------------------------- expressions
    def eval(self, node, fr):
        m = getattr(self, 'ex_' + type(node).__name__, None)
        if m is None:
            self.unsupported(node, 'expression %s' % type(node).__name__)
        return m(node, fr)

    def ex_Constant(self, node, fr):
        return C(node.value)

    def ex_Name(self, node, fr):
        f = fr
        while f is not None:
            if node.id in f.locals:
                return f.locals[node.id]
            f = f.parent
        if node.id in fr.globals:
            return self.wrap(fr.globals[node.id])
        if hasattr(_bi, node.id):
            return C(getattr(_bi, node.id))
        self.raise_(NameError, node.id)

    def ex_Tuple(self, node, fr):
        return STuple([self.eval(e, fr) for e in node.elts])

    def ex_List(self, node, fr):
        return SList([self.eval(e, fr) for e in node.elts])

    def ex_Dict(self, node, fr):
        d = {}
        for k, v in zip(node.keys, node.values):
            if k is None:
                self.unsupported(node, 'dict unpacking')
            kk = self.eval(k, fr)
            if not isinstance(kk, C):
                self.unsupported(node, 'dict display with symbolic key')
            d[kk.v] = self.eval(v, fr)
        return SDict(d)

    def ex_Set(self, node, fr):
        items = [self.eval(e, fr) for e in node.elts]
        if all(isinstance(x, C) for x in items):
            return C(set(x.v for x in items))
        self.unsupported(node, 'set display with symbolic items')

    def ex_JoinedStr(self, node, fr):
        parts = []
        for v in node.values:
            if isinstance(v, ast.Constant):
                parts.append(C(v.value))
            else:
                parts.append(self.eval(v.value, fr))
        if all(isinstance(p, C) for p in parts):
            return C(''.join(str(p.v) for p in parts))
        return T(Val.VStr(self.path.fresh('fstr', vals.STR)))

    def ex_Lambda(self, node, fr):
        return SClosure(node, fr)

    def ex_IfExp(self, node, fr):
        c = self.eval(node.test, fr)
        b = self.truth(c)
        if isinstance(b, bool):
            return self.eval(node.body if b else node.orelse, fr)
        if self.merge:
            b = z3.simplify(b)
            if self.must(z3.Not(b)):
                return self.eval(node.orelse, fr)
            if self.must(b):
                return self.eval(node.body, fr)
            with self.assuming(b):
                a = self.eval(node.body, fr)
            with self.assuming(z3.Not(b)):
                o = self.eval(node.orelse, fr)
            return self.ite(b, a, o)
        if self.path.branch(b, 'ifexp@%s' % node.lineno):
            return self.eval(node.body, fr)
        return self.eval(node.orelse, fr)

    def ex_BoolOp(self, node, fr):
        """and/or.  Pure (side-effect free, non-forking) operands are merged
        into one formula; otherwise short-circuit forks."""
        is_and = isinstance(node.op, ast.And)
        vals_ = []
        res = None
        for k, e in enumerate(node.values):
            v = self.eval(e, fr)
            last = (k == len(node.values) - 1)
            if last:
                res = v
                break
            b = self.truth(v)
            if isinstance(b, bool):
                if b != is_and:
                    return v       # short circuit: value decides
                continue
            if self.merge:
                rest = ast.BoolOp(op=node.op, values=node.values[k + 1:]) if len(node.values) - k - 1 > 1 \
                    else node.values[k + 1]
                ast.copy_location(rest, node)
                # guard the failure conditions of the remaining operands by the prefix
                guard = z3.simplify(b if is_and else z3.Not(b))
                if self.must(z3.Not(guard)):
                    return v
                r = self.eval_guarded(rest, fr, guard)
                if is_and:
                    return self.ite(b, r, v)
                return self.ite(b, v, r)
            # fork (short-circuit)
            if self.path.branch(b, 'boolop@%s' % node.lineno) != is_and:
                return v
        return res

    def eval_guarded(self, node, fr, guard):
        """Evaluate in merge mode with failure conditions guarded by ``guard``."""
        old = self.fail_conds
        mine = []
        self.fail_conds = mine
        try:
            with self.assuming(guard):
                r = self.eval(node, fr)
        finally:
            self.fail_conds = old
        if old is not None:
            for (c, k, l) in mine:
                old.append((z3.And(guard, c), k, l))
        return r

    def ex_UnaryOp(self, node, fr):
        v = self.eval(node.operand, fr)
        if isinstance(node.op, ast.Not):
            b = self.truth(v)
            if isinstance(b, bool):
                return C(not b)
            return self.bool_sv(z3.Not(b))
        if isinstance(v, C):
            try:
                if isinstance(node.op, ast.USub):
                    return C(-v.v)
                if isinstance(node.op, ast.UAdd):
                    return C(+v.v)
                if isinstance(node.op, ast.Invert):
                    return C(~v.v)
            except TypeError:
                self.raise_(TypeError, 'unary')
        if isinstance(node.op, ast.USub) and isinstance(v, T):
            t = v.t
            self.fail_if(z3.Not(vals.is_real(t)), TypeError, 'unary -')
            return T(z3.If(Val.is_VFloat(t), Val.VFloat(z3.fpNeg(Val.f(t))), Val.VInt(-vals.int_of(t))))
        self.unsupported(node, 'unary op')

    def ex_BinOp(self, node, fr):
        a = self.eval(node.left, fr)
        b = self.eval(node.right, fr)
        return self.binop(node.op, a, b, node)

    def ex_Compare(self, node, fr):
        left = self.eval(node.left, fr)
        conj = []
        for op, rn in zip(node.ops, node.comparators):
            right = self.eval(rn, fr)
            r = self.compare(op, left, right, node)
            b = self.truth(r)
            if isinstance(b, bool):
                if not b:
                    return C(False)
            else:
                if len(node.ops) > 1 and not self.merge:
                    # chained: later operands only evaluated if this one holds
                    if not self.path.branch(b, 'cmp@%s' % node.lineno):
                        return C(False)
                else:
                    conj.append(b)
            left = right
        if not conj:
            return C(True)
        return self.bool_sv(z3.And(*conj) if len(conj) > 1 else conj[0])

    def ex_Attribute(self, node, fr):
        obj = self.eval(node.value, fr)
        return self.getattr_(obj, node.attr, node)

    def ex_Subscript(self, node, fr):
        obj = self.eval(node.value, fr)
        if isinstance(node.slice, ast.Slice):
            lo = self.eval(node.slice.lower, fr) if node.slice.lower else None
            hi = self.eval(node.slice.upper, fr) if node.slice.upper else None
            st = self.eval(node.slice.step, fr) if node.slice.step else None
            return self.getslice(obj, lo, hi, st, node)
        idx = self.eval(node.slice, fr)
        return self.getitem(obj, idx, node)

    def ex_Call(self, node, fr):
        # super() needs the frame
        if isinstance(node.func, ast.Name) and node.func.id == 'super' and not node.args:
            first = None
            f = fr
            while f is not None and f.fn is None and f.parent is not None:
                f = f.parent
            fnode_self = None
            if f.fn is not None:
                fa = func_ast(f.fn).args
                if fa.args:
                    fnode_self = f.locals.get(fa.args[0].arg)
            if f.defcls is None or fnode_self is None:
                self.unsupported(node, 'super() outside a method')
            return SSuper(f.defcls, fnode_self)
        if (isinstance(node.func, ast.Attribute) and node.func.attr in ('info', 'debug', 'warning', 'error')
                and isinstance(node.func.value, ast.Attribute) and node.func.value.attr == 'logger'):
            # <obj>.logger.<level>(...): logging; the arguments are evaluated, the call has no effect the
            # contracts talk about
            for a in node.args:
                self.eval_arg(a, fr)
            self.assumptions.add('calls on <obj>.logger.<level>(...) are logging only (no effect, do not raise)')
            return C(None)
        f = self.eval(node.func, fr)
        args = []
        for a in node.args:
            if isinstance(a, ast.Starred):
                v = self.eval(a.value, fr)
                items = self.iter_items(v, node)
                if items is None:
                    self.unsupported(node, 'star-args of symbolic sequence')
                args.extend(items)
            else:
                args.append(self.eval_arg(a, fr))
        kwargs = {}
        for k in node.keywords:
            if k.arg is None:
                v = self.eval(k.value, fr)
                if isinstance(v, SDict):
                    for kk, vv in v.d.items():
                        kwargs[kk] = vv
                else:
                    self.unsupported(node, '**kwargs of symbolic mapping')
            else:
                kwargs[k.arg] = self.eval_arg(k.value, fr)
        return self.call(f, args, kwargs, node)

    def eval_arg(self, a, fr):
        if isinstance(a, (ast.GeneratorExp,)):
            return self.comprehension(a, fr, 'gen')
        return self.eval(a, fr)

    def ex_ListComp(self, node, fr):
        return self.comprehension(node, fr, 'list')

    def ex_SetComp(self, node, fr):
        return self.comprehension(node, fr, 'set')

    def ex_DictComp(self, node, fr):
        return self.comprehension(node, fr, 'dict')

    def ex_GeneratorExp(self, node, fr):
        return self.comprehension(node, fr, 'gen')

    def comprehension(self, node, fr, kind):
        """Comprehensions over concrete-shape sources are unrolled; symbolic
        sources go to the summary hook."""
        if len(node.generators) != 1:
            return self._compr_nested(node, fr, kind)
        g = node.generators[0]
        it = self.eval(g.iter, fr)
        items = self.iter_items(it, node)
        if items is None:
            hook = getattr(self, 'symbolic_comprehension', None)
            if hook is None:
                self.unsupported(node, 'comprehension over symbolic sequence')
            return hook(node, it, fr, kind)
        sub = Frame(None, {}, fr.globals, fr, fr.defcls, '<comp>')
        sub.filename = fr.filename
        out = []
        for x in items:
            self.assign(g.target, x, sub)
            if all(self.decide(self.eval(c, sub), 'compif') for c in g.ifs):
                if kind == 'dict':
                    out.append((self.eval(node.key, sub), self.eval(node.value, sub)))
                else:
                    out.append(self.eval(node.elt, sub))
        return self._compr_result(out, kind, node)

    def _compr_nested(self, node, fr, kind):
        sub = Frame(None, {}, fr.globals, fr, fr.defcls, '<comp>')
        sub.filename = fr.filename
        out = []

        def rec(gi):
            if gi == len(node.generators):
                if kind == 'dict':
                    out.append((self.eval(node.key, sub), self.eval(node.value, sub)))
                else:
                    out.append(self.eval(node.elt, sub))
                return
            g = node.generators[gi]
            items = self.iter_items(self.eval(g.iter, sub), node)
            if items is None:
                self.unsupported(node, 'nested comprehension over symbolic sequence')
            for x in items:
                self.assign(g.target, x, sub)
                if all(self.decide(self.eval(c, sub), 'compif') for c in g.ifs):
                    rec(gi + 1)
        rec(0)
        return self._compr_result(out, kind, node)

    def _compr_result(self, out, kind, node):
        if kind in ('list',):
            return SList(out)
        if kind == 'gen':
            return SIter(out)
        if kind == 'dict':
            d = {}
            for k, v in out:
                if not isinstance(k, C):
                    self.unsupported(node, 'dict comprehension with symbolic key')
                d[k.v] = v
            return SDict(d)
        if kind == 'set':
            if all(isinstance(x, C) for x in out):
                return C(set(x.v for x in out))
            self.unsupported(node, 'set comprehension with symbolic items')

    # ---------------------------------------------------------- operators
    def numeric_parts(self, t):
        """(is_num, is_float, int term, fp term) of a Val term."""
        return vals.is_real(t), Val.is_VFloat(t), vals.int_of(t), Val.f(t)

    def to_fp_exact(self, it):
        """int term -> FP (I2F abstraction; exact when engine.exact_i2f)."""
        if getattr(self, 'exact_i2f', False):
            return z3.fpToFP(vals.RNE, z3.ToReal(it), vals.FP)
        f = vals.I2F(it)
        for ax in vals.i2f_axioms(it):
            self.axiom(ax)
        return f

    def compare(self, op, a, b, node):
        if isinstance(op, (ast.Is, ast.IsNot)):
            r = self.identical(a, b, node)
            if isinstance(op, ast.IsNot):
                r = (not r) if isinstance(r, bool) else z3.Not(r)
            return self.bool_sv(r)
        if isinstance(op, (ast.In, ast.NotIn)):
            r = self.contains(b, a, node)
            if isinstance(op, ast.NotIn):
                r = (not r) if isinstance(r, bool) else z3.Not(r)
            return self.bool_sv(r)
        if isinstance(a, C) and isinstance(b, C):
            try:
                return C(_CMP[type(op)](a.v, b.v))
            except TypeError:
                self.raise_(TypeError, 'compare')
        if isinstance(op, (ast.Eq, ast.NotEq)):
            r = self.equal(a, b, node)
            if isinstance(op, ast.NotEq):
                r = (not r) if isinstance(r, bool) else z3.Not(r)
            return self.bool_sv(r)
        # ordering
        if isinstance(a, STuple) and isinstance(b, STuple):
            # lexicographic order of tuples of statically known length: the first position whose elements
            # differ (==) decides by the elements' order; equal prefixes decide by length.  Every
            # element-wise comparison is evaluated (its TypeError paths are not guarded by "the earlier
            # positions were equal": an over-approximation of the raising paths, never of the value).
            def zb(x):
                return z3.BoolVal(x) if isinstance(x, bool) else x
            n = min(len(a.items), len(b.items))
            res = zb(_CMP[type(op)](len(a.items), len(b.items)))
            strict = {ast.Lt: ast.Lt, ast.LtE: ast.Lt, ast.Gt: ast.Gt, ast.GtE: ast.Gt}[type(op)]()
            for i in reversed(range(n)):
                eq_i = zb(self.equal(a.items[i], b.items[i], node))
                cmp_i = zb(self.truth(self.compare(strict, a.items[i], b.items[i], node)))
                res = z3.If(eq_i, res, cmp_i)
            return self.bool_sv(res)
        ta, tb = self.lift(a), self.lift(b)
        V = Val
        name = type(op).__name__
        _iop = {'Lt': lambda x, y: x < y, 'LtE': lambda x, y: x <= y,
                'Gt': lambda x, y: x > y, 'GtE': lambda x, y: x >= y}[name]
        _fop = {'Lt': z3.fpLT, 'LtE': z3.fpLEQ, 'Gt': z3.fpGT, 'GtE': z3.fpGEQ}[name]
        if self.must(z3.And(vals.is_integral(ta), vals.is_integral(tb))):
            return self.bool_sv(_iop(vals.int_of(ta), vals.int_of(tb)))
        if self.must(z3.And(V.is_VFloat(ta), V.is_VFloat(tb))):
            return self.bool_sv(_fop(V.f(ta), V.f(tb)))
        na, fa, ia, xa = self.numeric_parts(ta)
        nb, fb, ib, xb = self.numeric_parts(tb)
        both_num = z3.And(na, nb)
        both_str = z3.And(V.is_VStr(ta), V.is_VStr(tb))
        ok = z3.simplify(z3.Or(both_num, both_str))
        self.fail_if(z3.Not(ok), TypeError, 'ordering of incomparable kinds')
        name = type(op).__name__
        iop = {'Lt': lambda x, y: x < y, 'LtE': lambda x, y: x <= y,
               'Gt': lambda x, y: x > y, 'GtE': lambda x, y: x >= y}[name]
        fop = {'Lt': z3.fpLT, 'LtE': z3.fpLEQ, 'Gt': z3.fpGT, 'GtE': z3.fpGEQ}[name]
        sa, sb = V.s(ta), V.s(tb)
        sop = {'Lt': lambda x, y: x < y, 'LtE': lambda x, y: x <= y,
               'Gt': lambda x, y: y < x, 'GtE': lambda x, y: y <= x}[name]
        int_int = iop(ia, ib)
        flt_flt = fop(xa, xb)
        mixed_needed = z3.simplify(z3.And(both_num, z3.Xor(fa, fb)))
        if z3.is_false(mixed_needed):
            num = z3.If(fa, flt_flt, int_int)
        else:
            # mixed int/float comparison is exact in CPython: compare as reals,
            # with infinities / NaN handled separately
            def real_of(isf, i, x):
                return z3.If(isf, z3.fpToReal(x), z3.ToReal(i))
            ra, rb = real_of(fa, ia, xa), real_of(fb, ib, xb)
            rop = iop(ra, rb)
            fin = z3.And(z3.Or(z3.Not(fa), z3.Not(z3.Or(z3.fpIsInf(xa), z3.fpIsNaN(xa)))),
                         z3.Or(z3.Not(fb), z3.Not(z3.Or(z3.fpIsInf(xb), z3.fpIsNaN(xb)))))
            # non-finite side: fall back to FP comparison of the float side against +-0 sign
            xa2 = z3.If(fa, xa, z3.If(ia >= 0, z3.FPVal(0.0, vals.FP), z3.FPVal(-1.0, vals.FP)))
            xb2 = z3.If(fb, xb, z3.If(ib >= 0, z3.FPVal(0.0, vals.FP), z3.FPVal(-1.0, vals.FP)))
            num = z3.If(z3.And(fa, fb), flt_flt,
                        z3.If(z3.And(z3.Not(fa), z3.Not(fb)), int_int,
                              z3.If(fin, rop, fop(xa2, xb2))))
        res = z3.If(both_num, num, sop(sa, sb))
        return self.bool_sv(res)

    def identical(self, a, b, node):
        if isinstance(a, C) and isinstance(b, C):
            return a.v is b.v
        for x, y in ((a, b), (b, a)):
            if isinstance(x, C) and (x.v is None or isinstance(x.v, (bool, type)) or
                                     (id(x.v) in self.singletons and self.singletons[id(x.v)][0] is x.v)):
                if isinstance(y, (STuple, SList, SDict, SExc, SBound, SClosure)):
                    return False
                return z3.simplify(self.lift(y) == self.lift(x))
        if isinstance(a, T) and isinstance(b, T):
            # identity of two symbolic values: only objects / singletons are sound
            ta, tb = a.t, b.t
            self.assumptions.add('`is` between symbolic values is decided on None/NOT_SET/objects/classes only')
            return z3.simplify(ta == tb)
        self.unsupported(node, '`is` between %r and %r' % (a, b))

    def equal(self, a, b, node):
        """Python == (see DESIGN 2.1: scalar-precise, container-structural)."""
        if isinstance(a, C) and isinstance(b, C):
            return a.v == b.v
        if isinstance(a, (SExc, SBound, SClosure)) or isinstance(b, (SExc, SBound, SClosure)):
            self.unsupported(node, '== on %r' % (a,))
        ta, tb = self.lift(a), self.lift(b)
        hook = getattr(self, 'object_eq', None)
        V = Val
        if self.must(z3.Or(z3.Not(vals.is_real(ta)), z3.Not(vals.is_real(tb)))):
            struct_eq = ta == tb
            if hook is not None:
                return hook(a, b, ta, tb, struct_eq)
            return z3.simplify(struct_eq)
        if self.must(z3.And(vals.is_integral(ta), vals.is_integral(tb))):
            return z3.simplify(vals.int_of(ta) == vals.int_of(tb))
        na, fa, ia, xa = self.numeric_parts(ta)
        nb, fb, ib, xb = self.numeric_parts(tb)
        both_num = z3.simplify(z3.And(na, nb))
        if z3.is_false(both_num):
            struct_eq = ta == tb
            if hook is not None:
                return hook(a, b, ta, tb, struct_eq)
            return z3.simplify(struct_eq)
        num_eq = z3.If(z3.And(fa, fb), z3.fpEQ(xa, xb),
                 z3.If(z3.And(z3.Not(fa), z3.Not(fb)), ia == ib,
                       z3.And(z3.Not(z3.fpIsNaN(z3.If(fa, xa, xb))), z3.Not(z3.fpIsInf(z3.If(fa, xa, xb))),
                              z3.fpToReal(z3.If(fa, xa, xb)) == z3.ToReal(z3.If(fa, ib, ia)))))
        struct_eq = ta == tb
        if hook is not None:
            struct_eq = hook(a, b, ta, tb, struct_eq)
        return z3.simplify(z3.If(both_num, num_eq, struct_eq))

    def contains(self, cont, item, node):
        """``item in cont`` -> python bool or z3 Bool."""
        if isinstance(cont, C) and isinstance(item, C):
            try:
                return item.v in cont.v
            except TypeError:
                self.raise_(TypeError, 'in')
        if isinstance(cont, (STuple, SList, SIter)):
            rs = [self.equal(x, item, node) for x in cont.items]
            if all(isinstance(r, bool) for r in rs):
                return any(rs)
            return z3.Or(*[r if not isinstance(r, bool) else z3.BoolVal(r) for r in rs])
        if isinstance(cont, C) and isinstance(cont.v, (tuple, list, set, frozenset, dict)):
            keys = list(cont.v)
            if not keys:
                return False
            rs = [self.equal(C(x), item, node) for x in keys]
            return z3.Or(*[r if not isinstance(r, bool) else z3.BoolVal(r) for r in rs])
        if isinstance(cont, SDict):
            rs = [self.equal(k if isinstance(k, SV) else C(k), item, node) for k in cont.d]
            if not rs:
                return False
            return z3.Or(*[r if not isinstance(r, bool) else z3.BoolVal(r) for r in rs])
        from . import builtins_model
        return builtins_model.contains_symbolic(self, cont, item, node)

    def binop(self, op, a, b, node):
        if isinstance(a, C) and isinstance(b, C):
            try:
                return C(_BIN[type(op)](a.v, b.v))
            except (TypeError, ValueError, ZeroDivisionError, OverflowError) as e:
                self.raise_(type(e), 'binop')
        from . import builtins_model
        return builtins_model.binop(self, op, a, b, node)

    # ---------------------------------------------------------- attributes
    def getattr_(self, obj, name, node=None):
        from . import builtins_model
        return builtins_model.getattr_(self, obj, name, node)

    def setattr_(self, obj, name, v, node=None):
        from . import builtins_model
        return builtins_model.setattr_(self, obj, name, v, node)

    def delattr_(self, obj, name, node=None):
        from . import builtins_model
        return builtins_model.delattr_(self, obj, name, node)

    def getitem(self, obj, idx, node=None):
        from . import builtins_model
        return builtins_model.getitem(self, obj, idx, node)

    def setitem(self, obj, idx, v, node=None):
        from . import builtins_model
        return builtins_model.setitem(self, obj, idx, v, node)

    def getslice(self, obj, lo, hi, st, node=None):
        from . import builtins_model
        return builtins_model.getslice(self, obj, lo, hi, st, node)


def _as_load(tgt):
    import copy
    t = copy.deepcopy(tgt)
    t.ctx = ast.Load()
    return t


import operator as _op
_CMP = {ast.Eq: _op.eq, ast.NotEq: _op.ne, ast.Lt: _op.lt, ast.LtE: _op.le,
        ast.Gt: _op.gt, ast.GtE: _op.ge}
_BIN = {ast.Add: _op.add, ast.Sub: _op.sub, ast.Mult: _op.mul, ast.Div: _op.truediv,
        ast.FloorDiv: _op.floordiv, ast.Mod: _op.mod, ast.Pow: _op.pow,
        ast.BitOr: _op.or_, ast.BitAnd: _op.and_, ast.BitXor: _op.xor,
        ast.LShift: _op.lshift, ast.RShift: _op.rshift}


# ============================================================================
# merge mode (SpecPy evaluation) -- added to Engine below


class SOutcome(SV):
    """Merged outcome of a specification: Ret(value) | Raise(cls)."""
    __slots__ = ('israise', 'clsid', 'val')

    def __init__(self, israise, clsid, val):
        self.israise = israise      # python bool or z3 Bool
        self.clsid = clsid          # z3 Int term
        self.val = val              # z3 Val term

    def __repr__(self):
        return 'SOutcome(%s,%s,%s)' % (self.israise, self.clsid, self.val)


def _zb(b):
    return z3.BoolVal(b) if isinstance(b, bool) else b


class _Scope:
    def __init__(self, E, cond):
        self.E = E
        self.cond = cond

    def __enter__(self):
        E = self.E
        p = E.path
        # the scope condition gets a name, so that facts recorded under the
        # scope are guarded by a small literal instead of a copy of the condition
        key = ('scopename', vals.tid(self.cond))
        if key not in p.ghost:
            p.fresh_n += 1
            b = z3.Bool('sc!%d' % p.fresh_n)
            p.ghost[key] = b
            p.solver.stack[0].append(b == self.cond)
            p.pc.append(b == self.cond)
        self.name = p.ghost[key]
        p.solver.push()
        p.solver.add(self.cond)
        p.solver.add(self.name)
        E.scopes.append(self.cond)
        E.scope_names.append(self.name)
        p.lits.append(set())
        E._literals(z3.simplify(self.cond), p.lits[-1])
        self.saved_ghost = p.ghost
        p.ghost = dict((k, v) for k, v in p.ghost.items() if not (isinstance(k, tuple) and k and k[0] in ('cands', 'candsg')))
        return self

    def __exit__(self, *a):
        E = self.E
        p = E.path
        p.solver.pop()
        E.scopes.pop()
        E.scope_names.pop()
        p.lits.pop()
        # keep non-class-candidate ghost entries created inside
        for k, v in p.ghost.items():
            if not (isinstance(k, tuple) and k and k[0] in ('cands', 'candsg')):
                self.saved_ghost.setdefault(k, v)
        p.ghost = self.saved_ghost
        # re-add facts assumed inside the scope (they were recorded guarded)
        if not E.scopes:
            for f in E.deferred:
                p.solver.add(f)
            E.deferred = []
        return False


def _engine_init_merge(self):
    self.scopes = []
    self.scope_names = []
    self.deferred = []
    self.binders = 0
    self.unfold_depth = 0
    self.unfolded = None


def _assuming(self, cond):
    return _Scope(self, cond)


def _scoped_assume(self, fact):
    """Assume a universally valid fact (axiom instance); inside a merge scope
    it is guarded by the scope conditions and re-added when the scope closes."""
    p = self.path
    if not self.scopes:
        p.assume(fact)
        return
    g = z3.Implies(z3.And(*self.scope_names), fact)
    p.pc.append(g)
    p.solver.add(fact)
    self.deferred.append(g)


def _smart_ite(self, b, x, y):
    if isinstance(b, bool):
        return x if b else y
    if isinstance(x, SOutcome) or isinstance(y, SOutcome):
        if not (isinstance(x, SOutcome) and isinstance(y, SOutcome)):
            raise Unsupported('merge of outcome with non-outcome')
        return SOutcome(z3.simplify(z3.If(b, _zb(x.israise), _zb(y.israise))),
                        z3.simplify(z3.If(b, x.clsid, y.clsid)),
                        z3.simplify(z3.If(b, x.val, y.val)))
    if isinstance(x, C) and isinstance(y, C) and x.v is y.v:
        return x
    tx, ty = self.lift(x), self.lift(y)
    if z3.is_app(tx) and z3.is_app(ty) and tx.decl().name() == ty.decl().name() == 'VBool':
        return T(Val.VBool(z3.simplify(z3.If(b, tx.arg(0), ty.arg(0)))))
    if z3.is_app(tx) and z3.is_app(ty) and tx.decl().name() == ty.decl().name() == 'VInt':
        return T(Val.VInt(z3.If(b, tx.arg(0), ty.arg(0))))
    return T(z3.If(b, tx, ty))


def _spec_block(self, stmts, fr):
    """Merge-mode evaluation of a statement list; returns the returned SV
    (None when falling off the end)."""
    for idx, st in enumerate(stmts):
        if isinstance(st, ast.Expr) and isinstance(st.value, ast.Constant):
            continue
        if isinstance(st, ast.Pass):
            continue
        if isinstance(st, ast.Return):
            return self.eval(st.value, fr) if st.value is not None else C(None)
        if isinstance(st, (ast.Assign, ast.AnnAssign, ast.AugAssign)):
            self.exec_stmt(st, fr)
            continue
        if isinstance(st, ast.If):
            c = self.eval(st.test, fr)
            b = self.truth(c)
            rest = stmts[idx + 1:]
            if isinstance(b, bool):
                return self._spec_block((st.body if b else st.orelse) + rest, fr)
            b = z3.simplify(b)
            # decide with the solver when one side is infeasible in the current scope
            if self.must(z3.Not(b)):
                return self._spec_block(st.orelse + rest, fr)
            if self.must(b):
                return self._spec_block(st.body + rest, fr)
            saved = dict(fr.locals)
            with self.assuming(b):
                x = self._spec_block(st.body + rest, fr)
            fr.locals = dict(saved)
            with self.assuming(z3.Not(b)):
                y = self._spec_block(st.orelse + rest, fr)
            fr.locals = saved
            if x is None or y is None:
                raise Unsupported('spec function falls off the end at line %s' % st.lineno)
            return self.ite(b, x, y)
        if isinstance(st, ast.For):
            it = self.eval(st.iter, fr)
            items = self.iter_items(it, st)
            if items is None:
                raise Unsupported('spec: for over symbolic sequence')
            for x in items:
                self.assign(st.target, x, fr)
                r = self._spec_block(st.body, fr)
                if r is not None:
                    raise Unsupported('spec: return inside for')
            continue
        raise Unsupported('spec statement %s at line %s' % (type(st).__name__, getattr(st, 'lineno', '?')))
    return None


def _spec_inline(self, fn, args, kwargs):
    node = func_ast(fn)
    if isinstance(node, ast.Lambda):
        node = find_lambda(fn)
        loc = self.bind_args(node.args, fn, args, kwargs)
        fr = Frame(fn, loc, fn.__globals__, None, self.defining_class(fn), fn.__qualname__)
        self._bind_closure(fn, fr)
        return self.eval(node.body, fr)
    loc = self.bind_args(node.args, fn, args, kwargs)
    fr = Frame(fn, loc, fn.__globals__, None, self.defining_class(fn), fn.__qualname__)
    fr.filename = fn.__code__.co_filename
    self._bind_closure(fn, fr)
    old = getattr(self, '_cur_file', '?')
    self._cur_file = fr.filename
    try:
        r = self._spec_block(node.body, fr)
    finally:
        self._cur_file = old
    return C(None) if r is None else r


def _spec_call(self, fn, args, kwargs):
    """Call of a SpecPy function in merge mode."""
    if getattr(fn, '_recursive', False):
        return self._spec_uf(fn, args, kwargs)
    self.depth += 1
    if self.depth > self.MAX_DEPTH + 10:
        raise Unsupported('spec inline depth exceeded at %s' % fn.__qualname__)
    try:
        return self._spec_inline(fn, args, kwargs)
    finally:
        self.depth -= 1


def _mentions_binder(terms, nb):
    """Does any term mention a comprehension index constant ci<k>?"""
    if nb == 0:
        return False
    names = set('ci%d' % k for k in range(nb))
    seen = set()
    stack = list(terms)
    while stack:
        t = stack.pop()
        k = vals.tid(t)
        if k in seen:
            continue
        seen.add(k)
        if z3.is_const(t) and t.decl().kind() == z3.Z3_OP_UNINTERPRETED and t.decl().name() in names:
            return True
        if z3.is_app(t):
            stack.extend(t.children())
        elif z3.is_quantifier(t):
            stack.append(t.body())
    return False


_reads_cache = {}


def reads_of(fn, _seen=None):
    """Attribute names a SpecPy function may read (transitively through the
    SpecPy functions it calls): the heap arrays its uninterpreted symbol must
    depend on, so that a heap update gives a new application."""
    if fn in _reads_cache:
        return _reads_cache[fn]
    seen = _seen if _seen is not None else set()
    if fn in seen:
        return set()
    seen.add(fn)
    out = set()
    try:
        node = func_ast(fn)
    except (OSError, TypeError):
        return out
    g = fn.__globals__
    for n in ast.walk(node):
        if isinstance(n, ast.Attribute) and isinstance(n.ctx, ast.Load):
            base = n.value
            if isinstance(base, ast.Name) and isinstance(g.get(base.id), types.ModuleType):
                tgt = getattr(g[base.id], n.attr, None)
                if isinstance(tgt, types.FunctionType) and (tgt.__module__ or '').split('.')[0] in ('spec', 'contracts', 'lemmas'):
                    out |= reads_of(tgt, seen)
                continue
            out.add(n.attr)
        elif isinstance(n, ast.Name) and isinstance(n.ctx, ast.Load):
            tgt = g.get(n.id)
            if isinstance(tgt, types.FunctionType) and (tgt.__module__ or '').split('.')[0] in ('spec', 'contracts', 'lemmas'):
                out |= reads_of(tgt, seen)
        elif isinstance(n, ast.Call) and isinstance(n.func, ast.Name) and n.func.id in ('getattr', 'hasattr'):
            out.add('*')
    if _seen is None:
        _reads_cache[fn] = out
    return out


def _spec_uf(self, fn, args, kwargs):
    if kwargs:
        raise Unsupported('keyword arguments to recursive spec function')
    kind = getattr(fn, '_returns', 'val')
    name = 'spec_' + fn.__name__
    terms = [self.lift(a) for a in args]
    reads = sorted(a for a in (set(getattr(fn, '_reads', ())) | reads_of(fn))
                   if a != '*' and not a.startswith('__'))
    # only arrays that were ever written differ from their initial value; the
    # initial arrays are global constants and need not be passed
    extra = [self.path.heap[a] for a in reads if a in self.path.heap and
             not (z3.is_const(self.path.heap[a]) and self.path.heap[a].decl().name() == 'H0_' + a)]
    name += ''.join('' for _ in extra)
    sorts = [vals.VS] * len(terms) + [e.sort() for e in extra]
    allargs = terms + extra
    if extra:
        name += '_h' + '_'.join(a for a in reads if a in self.path.heap and not (
            z3.is_const(self.path.heap[a]) and self.path.heap[a].decl().name() == 'H0_' + a))
    if kind == 'bool':
        f = z3.Function(name, *(sorts + [z3.BoolSort()]))
        app = f(*allargs)
        res = T(Val.VBool(app))
    elif kind == 'outcome':
        f1 = z3.Function(name + '_israise', *(sorts + [z3.BoolSort()]))
        f2 = z3.Function(name + '_cls', *(sorts + [z3.IntSort()]))
        f3 = z3.Function(name + '_val', *(sorts + [vals.VS]))
        res = SOutcome(f1(*allargs), f2(*allargs), f3(*allargs))
        app = f3(*allargs)
    else:
        f = z3.Function(name, *(sorts + [vals.VS]))
        app = f(*allargs)
        res = T(app)
        self.axiom(app != Val.VAbsent)      # a specification function denotes a python value
        rk = getattr(fn, '_result_kind', None)
        if rk == 'dict':
            self.axiom(Val.is_VDict(app))
        elif rk == 'list':
            self.axiom(Val.is_VList(app))
        elif rk == 'str':
            self.axiom(Val.is_VStr(app))
    fk = getattr(fn, '_facts', None)
    if fk is not None and not getattr(self, '_in_facts', False):
        # a lemma about the function (proved separately, see lemmas/): instantiated here
        self._in_facts = True
        old_fc, old_ud = self.fail_conds, self.unfold_depth
        self.fail_conds = None
        self.unfold_depth = 1000
        try:
            r = self.call_function(fk, list(args) + [res], {})
            self.scoped_assume(_zb(self.truth(r)))
        finally:
            self._in_facts = False
            self.fail_conds, self.unfold_depth = old_fc, old_ud
        self.assumptions.add('lemma about %s used: %s' % (fn.__name__, (fk.__doc__ or fk.__name__).strip()))
    # the definitional equation is recorded guarded by the scope it was
    # evaluated in, so it is re-derived when the same application occurs under
    # different scope conditions
    key = (fn.__name__,) + tuple(vals.tid(t) for t in allargs) + ('|',) + tuple(vals.tid(x) for x in self.scopes)
    stack = self.__dict__.setdefault('unfold_stack', [])
    allowed = getattr(self, 'unfold_only', None)
    if not getattr(fn, '_opaque', False) and not _mentions_binder(allargs, self.binders) and self.unfold_depth < 1000 \
            and (allowed is None or fn.__name__ in allowed) \
            and stack.count(fn.__name__) < getattr(fn, '_unfold', 1) and len(stack) < 5:
        if self.unfolded is None:
            self.unfolded = {}
        if key not in self.path.ghost.setdefault('unfolded', {}):
            self.path.ghost['unfolded'][key] = allargs   # keep terms alive
            stack.append(fn.__name__)
            try:
                body = self._spec_inline(fn, args, kwargs)
            finally:
                stack.pop()
            if kind == 'bool':
                self.scoped_assume(app == _zb(self.truth(body)))
            elif kind == 'outcome':
                if not isinstance(body, SOutcome):
                    raise Unsupported('outcome spec %s returned %r' % (fn.__name__, body))
                self.scoped_assume(res.israise == _zb(body.israise))
                self.scoped_assume(res.clsid == body.clsid)
                self.scoped_assume(res.val == body.val)
            else:
                self.scoped_assume(app == self.lift(body))
    return res


Engine._init_merge = _engine_init_merge
Engine.assuming = _assuming
Engine.scoped_assume = _scoped_assume
Engine.ite = _smart_ite
Engine._spec_block = _spec_block
Engine._spec_inline = _spec_inline
Engine._spec_call = _spec_call
Engine._spec_uf = _spec_uf


# ============================================================================
# comprehension summaries over symbolic sequences


def _elem_source(self, it, node):
    """(n, elem(i) -> SV or tuple of SVs) for a symbolic iteration source."""
    V = Val
    if isinstance(it, SRange):
        n = z3.simplify(z3.If(it.n > 0, it.n, 0))
        return n, (lambda i: T(V.VInt(i)))
    if isinstance(it, SItems):
        t = it.t
        n = V.dn(t)
        if it.what == 'items':
            def elem(i):
                k = z3.Select(V.dk(t), i)
                return STuple([T(k), T(z3.Select(V.dm(t), vals.KeyId(k)))])
        elif it.what == 'keys':
            def elem(i):
                return T(z3.Select(V.dk(t), i))
        else:
            def elem(i):
                return T(z3.Select(V.dm(t), vals.KeyId(z3.Select(V.dk(t), i))))
        return n, elem
    if isinstance(it, T):
        t = z3.simplify(it.t)
        rw = getattr(self, 'elem_rewrite', None)
        if rw is not None:
            r = rw(t)
            if r is not None:
                return r
        isl, ist, isd = V.is_VList(t), V.is_VTuple(t), V.is_VDict(t)
        sel = lambda a, i: T(z3.simplify(z3.Select(z3.simplify(a), i)))
        if self.must(isl):
            return z3.simplify(V.llen(t)), (lambda i: sel(V.larr(t), i))
        if self.must(ist):
            return z3.simplify(V.tlen(t)), (lambda i: sel(V.tarr(t), i))
        if self.must(isd):
            return z3.simplify(V.dn(t)), (lambda i: sel(V.dk(t), i))
        if self.must(V.is_VSet(t)):
            # iteration order of a set: an unconstrained (but fixed) enumeration
            return z3.simplify(V.sn(t)), (lambda i: sel(V.sk(t), i))
        if self.must(z3.Or(isl, ist)):
            n = z3.If(isl, V.llen(t), V.tlen(t))
            arr = z3.If(isl, V.larr(t), V.tarr(t))
            return n, (lambda i: T(z3.Select(arr, i)))
        if not self.merge:
            ok = z3.Or(isl, ist, isd)
            self.fail_if(z3.Not(ok), TypeError, 'not iterable')
            k = self.path.choose([isl, ist, isd], ['list', 'tuple', 'dict'])
            return self._elem_source(it, node)
        # specification mode, kind not determined: the generic reading
        n = z3.If(isl, V.llen(t), z3.If(ist, V.tlen(t), z3.If(isd, V.dn(t), z3.IntVal(0))))
        arr = z3.If(isl, V.larr(t), z3.If(ist, V.tarr(t), V.dk(t)))
        return n, (lambda i: T(z3.Select(arr, i)))
    raise Unsupported('iteration source %s' % (str(it)[:200],))


class SRange(SV):
    """range(n) with a symbolic bound"""
    __slots__ = ('n',)

    def __init__(self, n):
        self.n = n


class SItems(SV):
    """dict.items()/keys()/values() view of a symbolic dict."""
    __slots__ = ('t', 'what')

    def __init__(self, t, what):
        self.t = t
        self.what = what


class SQuant(SV):
    """Generator over a symbolic source: element condition as a function of
    the index (consumed by any()/all())."""
    __slots__ = ('i', 'n', 'body', 'fails', 'dsrc')

    def __init__(self, i, n, body, fails, dsrc=None):
        self.i = i
        self.n = n
        self.body = body
        self.fails = fails
        self.dsrc = dsrc          # dict term when the generator ranges over the keys / items of a dict


def _symbolic_comprehension(self, node, it, fr, kind):
    g = node.generators[0]
    if g.ifs:
        raise Unsupported('filter in a comprehension over a symbolic sequence (line %s)' % node.lineno)
    n, elem = self._elem_source(it, node)
    i = z3.Int('ci%d' % self.binders)
    sub = Frame(None, {}, fr.globals, fr, fr.defcls, '<comp>')
    sub.filename = fr.filename
    rng = z3.And(i >= 0, i < n)
    old_f, old_p = self.fail_conds, getattr(self, 'pre_conds', None)
    self.fail_conds, self.pre_conds = [], []
    self.merge += 1
    self.binders += 1
    try:
        with self.assuming(rng):
            self.path.index(i, n)
            self.assign(g.target, elem(i), sub)
            if kind == 'dict':
                kt = self.lift(self.eval(node.key, sub))
                vt = self.lift(self.eval(node.value, sub))
            else:
                ev = self.eval(node.elt, sub)
                et = self.lift(ev) if kind != 'gen' else ev
    finally:
        self.binders -= 1
        self.merge -= 1
        fails, pres = self.fail_conds, self.pre_conds
        self.fail_conds, self.pre_conds = old_f, old_p
    # preconditions of calls made per element
    if pres:
        goal = self.path.quant(z3.ForAll([i], z3.Implies(rng, z3.And(*pres))), n)
        self.require(goal, 'pre(elementwise)@%s' % node.lineno)
    if kind == 'gen':
        dsrc = None
        if isinstance(it, SItems):
            dsrc = z3.simplify(it.t)
        elif isinstance(it, T) and self.must(Val.is_VDict(it.t)):
            dsrc = z3.simplify(it.t)
        return SQuant(i, n, ev, fails, dsrc)
    if fails:
        if self.merge:
            # nested inside another summary: propagate a quantified failure condition
            classes = set(k for (_, k, _) in fails)
            if len(classes) != 1:
                raise Unsupported('element computation may raise different exception classes')
            anyf = self.path.quant(z3.Exists([i], z3.And(rng, z3.Or(*[c for (c, _, _) in fails]))), n)
            if self.fail_conds is not None:
                self.fail_conds.append((anyf, list(classes)[0], 'comprehension element'))
        else:
            classes = []
            for (_, k, _) in fails:
                if k not in classes:
                    classes.append(k)
            anyf = self.path.quant(z3.Exists([i], z3.And(rng, z3.Or(*[c for (c, _, _) in fails]))), n)
            if self.path.branch(anyf, 'comp-elem-raises@%s' % node.lineno):
                if len(classes) == 1:
                    self.raise_(classes[0], 'comprehension element')
                # first failing element decides the class
                j = self.path.fresh('firstfail', z3.IntSort())
                anyc = z3.Or(*[c for (c, _, _) in fails])
                self.path.assume(z3.And(j >= 0, j < n, z3.substitute(anyc, (i, j)),
                                        self.path.quant(z3.ForAll([i], z3.Implies(z3.And(i >= 0, i < j), z3.Not(anyc))), n)))
                self.path.index(j, n)
                conds = []
                for k in classes:
                    ck = z3.Or(*[c for (c, kk, _) in fails if kk is k])
                    conds.append(z3.substitute(ck, (i, j)))
                # evaluation order inside the element: earlier listed failure wins
                excl = []
                acc = z3.BoolVal(False)
                for c in conds:
                    excl.append(z3.And(c, z3.Not(acc)))
                    acc = z3.Or(acc, c)
                kx = self.path.choose(excl, ['raises:' + k.__name__ for k in classes])
                self.raise_(classes[kx], 'comprehension element')
    if kind == 'list':
        arr = z3.Lambda([i], z3.If(z3.simplify(rng), z3.simplify(et), Val.VAbsent))
        return T(Val.VList(z3.simplify(n), arr))
    if kind == 'dict':
        # the comprehension's value is named after the text of its defining
        # terms: identical comprehensions (code and specification) denote the
        # same constant; nothing else is known about it but its kind
        import hashlib
        n, kt, vt = z3.simplify(n), z3.simplify(kt), z3.simplify(vt)
        text = '%s|%s|%s' % (n.sexpr(), kt.sexpr(), vt.sexpr())
        r = z3.Const('DictComp_' + hashlib.sha1(text.encode()).hexdigest()[:16], vals.VS)
        self.axiom(Val.is_VDict(r))
        self.path.ghost.setdefault('dictcomps', {})[r.decl().name()] = (n, i, kt, vt)
        return T(r)
    raise Unsupported('%s comprehension over a symbolic sequence' % kind)


def _require(self, goal, name):
    """Proof obligation raised in the middle of a path (call-site
    precondition, loop invariant)."""
    hook = getattr(self, 'on_require', None)
    if hook is None:
        raise Unsupported('obligation %s outside a verification run' % name)
    hook(goal, name)
    self.path.assume(goal)


Engine._elem_source = _elem_source
Engine.symbolic_comprehension = _symbolic_comprehension
Engine.require = _require


# ============================================================================
# loops over symbolic sequences: first-match summary and invariant cut


def _assigned_names(stmts):
    out = set()
    for st in stmts:
        for n in ast.walk(st):
            if isinstance(n, ast.Name) and isinstance(n.ctx, (ast.Store, ast.Del)):
                out.add(n.id)
            elif isinstance(n, ast.Subscript) and isinstance(n.ctx, ast.Store) and isinstance(n.value, ast.Name):
                out.add(n.value.id)
            elif isinstance(n, ast.Call) and isinstance(n.func, ast.Attribute) and isinstance(n.func.value, ast.Name) \
                    and n.func.attr in ('append', 'extend', 'update', 'add', 'insert', 'pop', 'setdefault'):
                out.add(n.func.value.id)
    return out


def _loop_ordinal(self, st, fr):
    """1-based ordinal of loop ``st`` among the loops of its function (source order)."""
    f = fr
    while f is not None and f.fn is None:
        f = f.parent
    if f is None or f.fn is None:
        return None, None
    node = func_ast(f.fn)
    loops = [n for n in ast.walk(node) if isinstance(n, (ast.For, ast.While))]
    loops.sort(key=lambda n: (n.lineno, n.col_offset))
    for k, n in enumerate(loops):
        if n.lineno == st.lineno and n.col_offset == st.col_offset:
            return f.fn, k + 1
    return f.fn, None


def _first_match_shape(st):
    """``for x in xs: if c: raise ... / return <expr>`` -> the If node"""
    if st.orelse or len(st.body) != 1 or not isinstance(st.body[0], ast.If):
        return None
    iff = st.body[0]
    if iff.orelse or len(iff.body) != 1:
        return None
    if isinstance(iff.body[0], (ast.Raise, ast.Return)):
        return iff
    return None


def _symbolic_for(self, st, it, fr):
    fn, ordinal = self._loop_ordinal(st, fr)
    inv = None
    con = getattr(self, 'cur_con', None)
    if con is not None and fn is getattr(self, 'cur_fn', None) and ordinal is not None:
        inv = (getattr(con, 'loops', None) or {}).get(ordinal)
    if inv is not None:
        return self._loop_cut(st, it, fr, inv, ordinal)
    iff = _first_match_shape(st)
    if iff is None:
        self.unsupported(st, 'for over a symbolic sequence without an invariant (loop %s)' % ordinal)
    n, elem = self._elem_source(it, st)
    i = z3.Int('li%d' % self.binders)
    rng = z3.And(i >= 0, i < n)
    sub = Frame(None, {}, fr.globals, fr, fr.defcls, '<loop>')
    sub.filename = fr.filename
    old_f, old_p = self.fail_conds, getattr(self, 'pre_conds', None)
    self.fail_conds, self.pre_conds = [], []
    self.merge += 1
    self.binders += 1
    try:
        with self.assuming(rng):
            self.path.index(i, n)
            self.assign(st.target, elem(i), sub)
            c = self.truth(self.eval(iff.test, sub))
    finally:
        self.binders -= 1
        self.merge -= 1
        fails, pres = self.fail_conds, self.pre_conds
        self.fail_conds, self.pre_conds = old_f, old_p
    if fails:
        self.unsupported(st, 'loop test may raise (%s)' % ', '.join(l for (_, _, l) in fails))
    if pres:
        self.require(self.path.quant(z3.ForAll([i], z3.Implies(rng, z3.And(*pres))), n),
                     'pre(elementwise)@%s' % st.lineno)
    c = _zb(c)
    anyc = self.path.quant(z3.Exists([i], z3.And(rng, c)), n)
    if self.path.branch(anyc, 'first-match@%s' % st.lineno):
        j = self.path.fresh('first', z3.IntSort())
        self.path.assume(z3.And(j >= 0, j < n, z3.substitute(c, (i, j)),
                                self.path.quant(z3.ForAll([i], z3.Implies(z3.And(i >= 0, i < j), z3.Not(c))), n)))
        self.path.index(j, n)
        self.assign(st.target, elem(j), fr)
        self.exec_block(iff.body, fr)
        raise Unsupported('first-match body fell through')
    return None


def _eval_inv(self, inv, fr, k):
    """Evaluate a loop invariant (SpecPy function whose parameters name
    locals of the function, plus ``k``, the number of completed iterations)."""
    f = inv
    node = func_ast(f) if not getattr(f, '__name__', '') == '<lambda>' else find_lambda(f)
    names = [a.arg for a in node.args.args]
    args = []
    for nm in names:
        if nm == 'k':
            args.append(T(Val.VInt(k)) if z3.is_expr(k) else C(k))
        elif nm in fr.locals:
            args.append(fr.locals[nm])
        else:
            raise Unsupported('loop invariant names unknown local %r' % nm)
    old_fc, old_pc = self.fail_conds, getattr(self, 'pre_conds', None)
    self.fail_conds, self.pre_conds = None, None
    self.merge += 1
    try:
        r = self.call_function(f, args, {})
    finally:
        self.merge -= 1
        self.fail_conds, self.pre_conds = old_fc, old_pc
    return _zb(self.truth(r))


def _loop_cut(self, st, it, fr, inv, ordinal):
    spec = inv if isinstance(inv, dict) else {'inv': inv}
    invf = spec['inv']
    n, elem = self._elem_source(it, st)
    n = z3.simplify(n)
    self.path.assume(n >= 0)
    # entry
    self.require(self._eval_inv(invf, fr, z3.IntVal(0)), 'loop%d:entry' % ordinal)
    # havoc what the body may change
    mod = _assigned_names(st.body) | set(spec.get('modifies_locals', ()))
    for nm in sorted(mod):
        if nm in fr.locals:
            fr.locals[nm] = T(self.path.fresh('hv_' + nm))
    for attr in spec.get('modifies_heap', ()):
        if attr == '$dyn':
            from . import symclass
            self.path.heap['$dyn'] = self.path.fresh('hvDYN', symclass.DYN_SORT)
        else:
            self.path.heap[attr] = self.path.fresh('hvH_' + attr, z3.ArraySort(z3.IntSort(), vals.VS))
    k = self.path.fresh('k', z3.IntSort())
    which = self.path.choose([z3.BoolVal(True), z3.BoolVal(True)], ['loop%d:iteration' % ordinal, 'loop%d:exit' % ordinal])
    if which == 0:
        self.path.assume(z3.And(k >= 0, k < n))
        self.path.index(k, n)
        self.path.assume(self._eval_inv(invf, fr, k))
        self.assign(st.target, elem(k), fr)
        try:
            self.exec_block(st.body, fr)
        except _Continue:
            pass
        except _Break:
            return None
        self.require(self._eval_inv(invf, fr, k + 1), 'loop%d:preserve' % ordinal)
        raise PathAbort()
    self.path.assume(k == n)
    self.path.assume(self._eval_inv(invf, fr, n))
    self.exec_block(st.orelse, fr)
    return None


Engine._loop_ordinal = _loop_ordinal
Engine.symbolic_for = _symbolic_for
Engine._eval_inv = _eval_inv
Engine._loop_cut = _loop_cut
