"""Mechanical extraction of a statement range of a real function as a function of
its own ("slice"), re-done from the current source on every run.

A slice is declared with two predicates over the source text of a statement; the
statements of the (possibly nested) block that contains the first match, from the
first match through the last match, become the body of a new function whose
parameters are the free variables named in the declaration.  Several ranges of
the same block can be concatenated.  Line numbers are those of the original file.
What is dropped is everything of the enclosing function outside the ranges; the
declaration states it (``drops``) and the evidence repeats it.
"""
import ast
import hashlib
import inspect
import textwrap

SLICES = {}


def register(target, ranges, params, drops, returns=None):
    """target: 'pkg.mod:func@name'; ranges: [(first_prefix, last_prefix)] -- prefixes of
    the unparsed statement (``ast.unparse``), matched in the same block.  ``returns``: name of a
    local whose value the slice function returns (appended `return <name>`)."""
    SLICES[target] = {'ranges': ranges, 'params': params, 'drops': drops, 'returns': returns}


def _blocks(node):
    for n in ast.walk(node):
        for fld in ('body', 'orelse', 'finalbody'):
            b = getattr(n, fld, None)
            if isinstance(b, list) and b and isinstance(b[0], ast.stmt):
                yield b
        if isinstance(n, ast.Try):
            for h in n.handlers:
                yield h.body


def _find(fdef, first, last):
    for block in _blocks(fdef):
        texts = [ast.unparse(s) for s in block]
        starts = [i for i, t in enumerate(texts) if t.startswith(first)]
        if not starts:
            continue
        i = starts[0]
        ends = [j for j in range(i, len(block)) if texts[j].startswith(last)]
        if not ends:
            continue
        return block[i:ends[-1] + 1] if first != last else block[i:ends[0] + 1]
    raise LookupError('slice range not found: %r .. %r' % (first, last))


def build(target, fn):
    d = SLICES[target]
    src = textwrap.dedent(inspect.getsource(fn))
    mod = ast.parse(src)
    fdef = mod.body[0]
    ast.increment_lineno(fdef, fn.__code__.co_firstlineno - 1)
    stmts = []
    for first, last in d['ranges']:
        stmts.extend(_find(fdef, first, last))
    if d.get('returns'):
        ret = ast.parse('return %s' % d['returns']).body[0]
        ast.copy_location(ret, stmts[-1])
        ret.lineno = ret.end_lineno = stmts[-1].end_lineno
        stmts = stmts + [ret]
    name = target.split('@')[1]
    args = ast.arguments(posonlyargs=[], args=[ast.arg(arg=p) for p in d['params']], vararg=None,
                         kwonlyargs=[], kw_defaults=[], kwarg=None, defaults=[])
    new = ast.FunctionDef(name=name, args=args, body=stmts, decorator_list=[], returns=None, type_comment=None)
    try:
        new.type_params = []
    except Exception:
        pass
    new.lineno = stmts[0].lineno
    new.col_offset = 0
    new.end_lineno = stmts[-1].end_lineno
    new.end_col_offset = 0
    m = ast.Module(body=[new], type_ignores=[])
    ast.fix_missing_locations(m)
    code = compile(m, fn.__code__.co_filename, 'exec')
    g = fn.__globals__
    loc = {}
    exec(code, g, loc)
    out = loc[name]
    text = '\n'.join(ast.unparse(s) for s in stmts)
    out.__pyvc_ast__ = new
    out.__pyvc_src__ = text
    out.__pyvc_lines__ = [stmts[0].lineno, stmts[-1].end_lineno]
    out.__pyvc_sha__ = hashlib.sha256(text.encode('utf-8')).hexdigest()
    out.__pyvc_drops__ = d['drops']
    return out
