"""Built-in model of the classes that the python_types backend generates.

The reflection tables of a generated struct / union class are not described
to the solver by quantified well-formedness formulas (the SpecPy predicates
``wf_struct_def`` ... in spec/runtime.py say what they must look like and are
evaluated natively on really generated code by the GEN-WF stand-in); instead
the same statements are built in here as uninterpreted symbols with axiom
schemas that are instantiated, E-matching style, for the terms that occur
(``saturate``).  Everything in this file is therefore an *assumption about
generated code* ("tables well formed"), reported as such in every evidence
file; nothing here speaks about the runtime functions under proof.

struct class c:   NF(c) fields; field i has name FName(c,i), validator
                  FVal(c,i), descriptor object FAttr(c,i), default FDefault(c,i);
                  FIdx(c,n) is the index of the field named n.
union class c:    HasTag(c,n), validator TVal(c,n), CatchAll(c).
subtype tree c:   HasSub(c,tag) / SubVal(c,tag); Listed(c,k) / TagOf(c,k).
"""
import z3

from . import vals
from . import interp as I
from .vals import Val, VS

INT, STR, BOOL = z3.IntSort(), vals.STR, z3.BoolSort()
ARR = z3.ArraySort(INT, VS)

NF = z3.Function('NF', INT, INT)
FName = z3.Function('FName', INT, INT, STR)
FVal = z3.Function('FVal', INT, INT, VS)
FAttr = z3.Function('FAttr', INT, INT, INT)
FDefault = z3.Function('FDefault', INT, INT, VS)
FIdx = z3.Function('FIdx', INT, STR, INT)
HasReq = z3.Function('HasReq', INT, BOOL)
ReqWit = z3.Function('ReqWit', INT, INT)
FieldsArr = z3.Function('FieldsArr', INT, ARR)
NamesOrder = z3.Function('NamesOrder', INT, ARR)
NamesMember = z3.Function('NamesMember', INT, z3.ArraySort(INT, BOOL))
Perm = z3.Function('Perm', INT, INT, INT)
PermInv = z3.Function('PermInv', INT, INT, INT)

NT = z3.Function('NT', INT, INT)
HasTag = z3.Function('HasTag', INT, STR, BOOL)
TVal = z3.Function('TVal', INT, STR, VS)
TagOrder = z3.Function('TagOrder', INT, ARR)
TagArr = z3.Function('TagArr', INT, ARR)
CatchAll = z3.Function('CatchAll', INT, VS)

NS = z3.Function('NS', INT, INT)
HasSub = z3.Function('HasSub', INT, STR, BOOL)
SubVal = z3.Function('SubVal', INT, STR, VS)
SubOrder = z3.Function('SubOrder', INT, ARR)
SubArr = z3.Function('SubArr', INT, ARR)
NP = z3.Function('NP', INT, INT)
Listed = z3.Function('Listed', INT, INT, BOOL)
TagOf = z3.Function('TagOf', INT, INT, STR)
PtOrder = z3.Function('PtOrder', INT, ARR)
PtArr = z3.Function('PtArr', INT, ARR)
IsCatchAll = z3.Function('IsCatchAll', INT, BOOL)

STRUCT_ATTRS = ('_all_fields_', '_all_field_names_', '_has_required_fields',
                '_tag_to_subtype_', '_pytype_to_tag_and_subtype_', '_is_catch_all_')
UNION_ATTRS = ('_tagmap', '_catch_all', '_permissioned_tagmaps')


def tuple2(a, b):
    arr = z3.Store(z3.Store(z3.K(INT, Val.VAbsent), 0, a), 1, b)
    return Val.VTuple(z3.IntVal(2), arr)


def tuple1(a):
    return Val.VTuple(z3.IntVal(1), z3.Store(z3.K(INT, Val.VAbsent), 0, a))


NAMES_ACTIVE = set()


def install(E, bb, bv, spec_wf_name='spec_wf'):
    C = E.classes
    Struct, Union, Attribute = bb.Struct, bb.Union, bb.Attribute
    slot_tmpl_name = None

    def cid(K):
        return z3.IntVal(C.cid(K))

    def slot_fn():
        from .builtins_model import _h
        name = 'Tmpl_' + _h(repr(('_', '_value')))
        return (z3.Function(name, STR, STR), z3.Function(name + '_inv', STR, STR))

    def wf_app(v):
        f = z3.Function(spec_wf_name, VS, BOOL)
        return f(v)

    def is_validator(v):
        return z3.And(Val.is_VObj(v), C.is_instance(Val.oid(v), bv.Validator),
                      Val.oid(v) >= 1, Val.oid(v) < I.ALLOC_BASE)

    def class_attr(c, name):
        """term of a reflection table read ``D.<name>`` of generated class c"""
        if name == '_all_fields_':
            E.axiom(NF(c) >= 0)
            return Val.VList(NF(c), FieldsArr(c))
        if name == '_all_field_names_':
            E.axiom(NF(c) >= 0)
            NAMES_ACTIVE.add(c.get_id())
            vals.KEEP.append(c)
            return Val.VSet(NF(c), NamesOrder(c), NamesMember(c))
        if name == '_has_required_fields':
            E.axiom(z3.Implies(HasReq(c), z3.And(ReqWit(c) >= 0, ReqWit(c) < NF(c), required(c, ReqWit(c)))))
            return Val.VBool(HasReq(c))
        if name == '_tagmap':
            E.axiom(NT(c) >= 0)
            return Val.VDict(NT(c), TagOrder(c), TagArr(c))
        if name == '_catch_all':
            r = CatchAll(c)
            s = Val.s(r)
            E.axiom(z3.Or(r == Val.VNone,
                          z3.And(Val.is_VStr(r), HasTag(c, s), is_void(TVal(c, s)))))
            return r
        if name == '_permissioned_tagmaps':
            E.assumptions.add('scope: unions without omitted-caller tag maps (_permissioned_tagmaps is empty)')
            return Val.VSet(z3.IntVal(0), z3.K(INT, Val.VAbsent), z3.K(INT, z3.BoolVal(False)))
        if name == '_tag_to_subtype_':
            E.axiom(NS(c) >= 0)
            return Val.VDict(NS(c), SubOrder(c), SubArr(c))
        if name == '_pytype_to_tag_and_subtype_':
            E.axiom(NP(c) >= 0)
            return Val.VDict(NP(c), PtOrder(c), PtArr(c))
        if name == '_is_catch_all_':
            return Val.VBool(IsCatchAll(c))
        return None
    E.gen_class_attr = class_attr

    def is_void(v):
        return z3.And(Val.is_VObj(v), C.cls_of(Val.oid(v)) == C.cid(bv.Void))

    def is_nullable(v):
        return z3.And(Val.is_VObj(v), C.cls_of(Val.oid(v)) == C.cid(bv.Nullable))

    def required(c, i):
        a = FAttr(c, i)
        return z3.And(z3.Not(is_nullable(FVal(c, i))), FDefault(c, i) == Val.VNoDefault)

    def user_defined(v):
        inner = z3.If(is_nullable(v), z3.Select(E.path.heap_arr('validator'), Val.oid(v)), v) \
            if E.path is not None else v
        return z3.And(Val.is_VObj(inner),
                      z3.Or(C.is_instance(Val.oid(inner), bv.Struct), C.is_instance(Val.oid(inner), bv.Union)))

    # ------------------------------------------------------------ triggers
    def nesting_of(t, names, cap=40):
        n = 0
        stack = [t]
        seen = set()
        while stack and len(seen) < cap * 10:
            x = stack.pop()
            k = x.get_id()
            if k in seen:
                continue
            seen.add(k)
            if z3.is_app(x):
                if x.decl().name() in names:
                    n += 1
                stack.extend(x.children())
        return n

    def nesting(t, cap=40):
        """number of FIdx / Perm applications inside t (matching-loop guard:
        the axioms generate index terms, which must not trigger forever)"""
        n = 0
        stack = [t]
        seen = set()
        while stack and len(seen) < cap * 10:
            x = stack.pop()
            k = x.get_id()
            if k in seen:
                continue
            seen.add(k)
            if z3.is_app(x):
                if x.decl().name() in ('FIdx', 'Perm', 'PermInv', 'ReqWit'):
                    n += 1
                stack.extend(x.children())
        return n

    def on_select(t):
        if nesting(t) > 1:
            return
        a, k = t.arg(0), t.arg(1)
        if not z3.is_app(a) or a.num_args() != 1:
            return
        name = a.decl().name()
        c = a.arg(0)
        if name == 'FieldsArr':
            field_axioms(c, k)
        elif name == 'NamesOrder':
            inr = z3.And(k >= 0, k < NF(c))
            p = Perm(c, k)
            E.axiom(z3.Implies(inr, z3.And(t == Val.VStr(FName(c, p)), p >= 0, p < NF(c), PermInv(c, p) == k)))
            field_axioms(c, p)
            if E.path is not None:
                E.path.index(p, NF(c))
        elif name == 'NamesMember':
            x = key_of(k)
            if x is not None:
                n = Val.s(x)
                i = FIdx(c, n)
                E.axiom(t == z3.And(Val.is_VStr(x), i >= 0, i < NF(c), FName(c, i) == n))
                field_axioms(c, i)
        elif name == 'TagArr':
            x = key_of(k)
            if x is not None:
                n = Val.s(x)
                has = z3.And(Val.is_VStr(x), HasTag(c, n))
                v = TVal(c, n)
                E.axiom(z3.If(has, z3.And(t == v, is_validator(v), wf_app(v)), t == Val.VAbsent))
        elif name == 'SubArr':
            x = key_of(k)
            if x is not None:
                tag0 = z3.Select(Val.tarr(x), 0)
                n = Val.s(tag0)
                has = z3.And(Val.is_VTuple(x), Val.tlen(x) == 1, Val.is_VStr(tag0), HasSub(c, n))
                E.axiom(z3.If(has, z3.And(t == SubVal(c, n), subval_ok(c, n)), t == Val.VAbsent))
        elif name == 'PtArr':
            x = key_of(k)
            if x is not None:
                kc = Val.cid(x)
                has = z3.And(Val.is_VClass(x), Listed(c, kc))
                n = TagOf(c, kc)
                v = SubVal(c, n)
                entry = tuple2(tuple1(Val.VStr(n)), v)
                defn = z3.Select(E.path.heap_arr('definition'), Val.oid(v))
                E.axiom(z3.If(has, z3.And(t == entry, HasSub(c, n), subval_ok(c, n), defn == Val.VClass(kc)),
                              t == Val.VAbsent))

    def subval_ok(c, n):
        v = SubVal(c, n)
        defn = z3.Select(E.path.heap_arr('definition'), Val.oid(v))
        return z3.And(Val.is_VObj(v), C.is_instance(Val.oid(v), bv.Struct), wf_app(v),
                      Val.oid(v) >= 1, Val.oid(v) < I.ALLOC_BASE,
                      Val.is_VClass(defn), Val.cid(defn) > I.SYM_CLASS_BASE, C.Sub(Val.cid(defn), c))

    def key_of(k):
        """x when k is syntactically KeyId(x)"""
        if z3.is_app(k) and k.decl().name() == 'KeyId':
            return k.arg(0)
        return None

    def field_axioms(c, i):
        if nesting(i) > 1:
            return
        inr = z3.And(i >= 0, i < NF(c))
        nm = FName(c, i)
        v = FVal(c, i)
        a = FAttr(c, i)
        tmpl, inv = slot_fn()
        slot = tmpl(nm)
        E.axiom(inv(slot) == nm)
        H = E.path.heap_arr
        facts = [
            z3.Select(FieldsArr(c), i) == tuple2(Val.VStr(nm), v),
            FIdx(c, nm) == i,                       # field names are pairwise distinct
            is_validator(v), wf_app(v),
            a >= 1, a < I.ALLOC_BASE, C.cls_of(a) == C.cid(Attribute),
            z3.Select(H('name'), a) == Val.VStr(slot),
            z3.Select(H('validator'), a) == v,
            z3.Select(H('nullable'), a) == Val.VBool(is_nullable(v)),
            z3.Select(H('user_defined'), a) == Val.VBool(user_defined(v)),
            z3.Select(H('default'), a) == FDefault(c, i),
            FDefault(c, i) != Val.VAbsent,
            z3.Implies(required(c, i), HasReq(c)),
            # the descriptor is what the class (and every generated subclass) shows under the field's name
            ClassAttr(c, nm) == Val.VObj(a),
        ]
        names = c.get_id() in NAMES_ACTIVE
        if names:
            facts += [
                # every field is met when iterating _all_field_names_
                PermInv(c, i) >= 0, PermInv(c, i) < NF(c), Perm(c, PermInv(c, i)) == i,
                z3.Select(NamesOrder(c), PermInv(c, i)) == Val.VStr(nm),
                z3.Select(NamesMember(c), vals.KeyId(Val.VStr(nm))),
            ]
        E.axiom(z3.Implies(inr, z3.And(*facts)))
        if names and E.path is not None and nesting(i) == 0:
            E.path.index(PermInv(c, i), NF(c))

    from .symclass import ClassAttr

    def on_classattr(t):
        K, n = t.arg(0), t.arg(1)
        if nesting_of(t, ('FIdx',)) > 0 or nesting_of(t, ('Perm', 'PermInv', 'ReqWit')) > 1:
            return
        if z3.is_app(n) and n.decl().name() == 'FName':
            # the name of field i of class b, looked up on K: K's own table, or inherited
            b, i = n.arg(0), n.arg(1)
            inr = z3.And(i >= 0, i < NF(b))
            E.axiom(z3.Implies(z3.And(C.Sub(K, b), inr), t == Val.VObj(FAttr(b, i))))
            field_axioms(b, i)
            return
        # descriptor lookup through the struct classes K is known to extend
        for (_, c1, c2) in (E.path.ghost.get('sub_pairs', []) if E.path is not None else []):
            for (a, b) in ((c1, c2),):
                if a.eq(K):
                    i = FIdx(b, n)
                    isf = z3.And(i >= 0, i < NF(b), FName(b, i) == n)
                    E.axiom(z3.Implies(z3.And(C.Sub(K, b), b > I.SYM_CLASS_BASE, C.Sub(b, cid(Struct)), isf),
                                       t == Val.VObj(FAttr(b, i))))
                    field_axioms(b, i)
        # the class itself
        i = FIdx(K, n)
        isf = z3.And(i >= 0, i < NF(K), FName(K, i) == n)
        E.axiom(z3.Implies(z3.And(K > I.SYM_CLASS_BASE, C.Sub(K, cid(Struct)), isf), t == Val.VObj(FAttr(K, i))))
        field_axioms(K, i)

    InheritsField = z3.Function('InheritsField', INT, STR, BOOL)

    def inherits_field(K, n):
        return InheritsField(K, n)

    def on_fattr(t):
        if nesting(t) > 1:
            return
        field_axioms(t.arg(0), t.arg(1))

    def on_perm(t):
        c, j = t.arg(0), t.arg(1)
        if nesting_of(j, ('Perm', 'PermInv', 'FIdx')) > 0:
            return
        inr = z3.And(j >= 0, j < NF(c))
        E.axiom(z3.Implies(inr, z3.And(t >= 0, t < NF(c), PermInv(c, t) == j,
                                       z3.Select(NamesOrder(c), j) == Val.VStr(FName(c, t)))))
        field_axioms(c, t)

    E.triggers = {'select': on_select, 'ClassAttr': on_classattr, 'FAttr': on_fattr, 'Perm': on_perm}

    def elem_rewrite(t):
        """iteration over a reflection table of the model: the elements in
        their structured form (the field tuple, the field name) rather than as
        array reads, so that kinds and names are syntactically evident"""
        if not z3.is_app(t):
            return None
        d = t.decl().name()
        if d == 'VList' and z3.is_app(t.arg(1)) and t.arg(1).decl().name() == 'FieldsArr':
            c = t.arg(1).arg(0)

            def elem(i):
                field_axioms(c, i)
                return I.T(tuple2(Val.VStr(FName(c, i)), FVal(c, i)))
            return z3.simplify(t.arg(0)), elem
        if d == 'VSet' and z3.is_app(t.arg(1)) and t.arg(1).decl().name() == 'NamesOrder':
            c = t.arg(1).arg(0)

            def elem(j):
                p = Perm(c, j)
                inr = z3.And(j >= 0, j < NF(c))
                E.axiom(z3.Implies(inr, z3.And(p >= 0, p < NF(c), PermInv(c, p) == j,
                                               z3.Select(NamesOrder(c), j) == Val.VStr(FName(c, p)))))
                field_axioms(c, p)
                if E.path is not None:
                    E.path.index(p, NF(c))
                return I.T(Val.VStr(FName(c, p)))
            return z3.simplify(t.arg(0)), elem
        return None
    E.elem_rewrite = elem_rewrite

    def getitem_symbolic(obj, idx, node):
        """fields[i] on the field list of the model: the structured field tuple"""
        if not isinstance(obj, I.T):
            return None
        t = z3.simplify(obj.t)
        r = elem_rewrite(t)
        if r is None or t.decl().name() != 'VList':
            return None
        n, elem = r
        it = E.lift(idx)
        if not E.must(vals.is_integral(it)):
            return None
        i = z3.simplify(vals.int_of(it))
        if E.must(i >= 0):
            j = i
        elif E.must(i < 0):
            j = z3.simplify(i + n)
        else:
            return None
        E.fail_if(z3.Or(j < 0, j >= n), IndexError, 'index range')
        if E.path is not None:
            E.path.index(j, n)
        return elem(j)
    E.getitem_symbolic = getitem_symbolic
