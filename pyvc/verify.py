"""VC generation and discharge for one contract (one function of the tree)."""
import hashlib
import inspect
import json
import os
import sys
import time
import traceback
import z3

from . import contract as CT
from . import interp as I
from . import vals
from .vals import Val

# Proof budgets are deterministic (z3 resource units), so a verdict does not depend on how busy the
# machine is; the wall-clock timeout is only a backstop far above what the budget allows.
PROVE_RLIMIT = {'quick': 400000000, 'thorough': 2000000000}
PROVE_TIMEOUT_MS = {'quick': 900000, 'thorough': 3600000}


def _rl_now():
    """z3's resource counter is cumulative per context: read it through a trivial check"""
    t = z3.Solver()
    t.add(z3.BoolVal(True))
    t.check()
    return _rl(t)


def _rl(solver):
    try:
        st = solver.statistics()
        for k in st.keys():
            if k == 'rlimit count':
                return st.get_key_value(k)
    except Exception:
        pass
    return 0


def setup_engine(seed=0):
    """Engine preloaded with the class table of the runtime modules."""
    E = I.Engine(seed)
    import stone.backends.python_rsrc.stone_validators as bv
    import stone.backends.python_rsrc.stone_base as bb
    import stone.backends.python_rsrc.stone_serializers as ss
    E.register_singleton(bb.NOT_SET, Val.VNotSet)
    E.register_singleton(bb.NO_DEFAULT, Val.VNoDefault)
    import stone.ir.data_types as ir_dt
    import stone.ir.api as ir_api
    import stone.frontend.ast as st_ast
    import stone.frontend.exception as st_exc
    import stone.cli_helpers as st_clih
    import stone.backend as st_backend
    for mod in (bv, bb, ss, ir_dt, ir_api, st_ast, st_exc, st_clih, st_backend):
        for name in sorted(vars(mod)):
            obj = vars(mod)[name]
            if isinstance(obj, type) and obj.__module__ == mod.__name__:
                E.classes.cid(obj)
    import datetime
    for k in (type(None), bool, int, float, str, bytes, list, tuple, dict, set, datetime.datetime, type, object):
        E.classes.cid(k)
    E.classes.open_bases = set([bb.Struct, bb.Union])
    from . import symclass
    symclass.install(E, bb)
    from . import genmodel
    genmodel.install(E, bb, bv)
    from . import libmodel
    libmodel.install(E)
    libmodel.install_io(E)
    libmodel.install_spec(E)
    libmodel.install_order(E)
    import spec.runtime as S

    def m_re_valid(E, args, kw):
        f = z3.Function('ReValid', vals.STR, z3.BoolSort())
        return E.bool_sv(f(Val.s(E.lift(args[0]))))
    E.models[S.re_compile_ok] = m_re_valid
    from . import builtins_model as B

    def m_is_slot_name(E, args, kw):
        t = E.lift(args[0])
        name = 'Tmpl_' + B._h(repr(('_', '_value')))
        f = z3.Function(name, vals.STR, vals.STR)
        inv = z3.Function(name + '_inv', vals.STR, vals.STR)
        n = z3.simplify(Val.s(t))
        return E.bool_sv(z3.And(Val.is_VStr(t), z3.simplify(n == f(inv(n)))))
    E.models[S.is_slot_name] = m_is_slot_name

    def m_same(E, args, kw):
        a, b = args
        return E.bool_sv(E.lift(a) == E.lift(b))
    E.models[S.same] = m_same

    # the table predicates of generated classes: symbolically "is a generated
    # struct / union class" -- the tables themselves are the built-in model
    # (pyvc/genmodel.py); natively the SpecPy text is evaluated on the real tables
    def gen_class_pred(base):
        def m(E, args, kw):
            t = E.lift(args[0])
            c = Val.cid(t)
            E.assumptions.add('reflection tables of generated classes are well formed (GEN-WF; built-in model '
                              'pyvc/genmodel.py, checked on generated code by the bounded stand-in)')
            return E.bool_sv(z3.And(Val.is_VClass(t), c > I.SYM_CLASS_BASE,
                                    E.classes.Sub(c, z3.IntVal(E.classes.cid(base)))))
        return m
    E.models[S.wf_struct_def] = gen_class_pred(bb.Struct)
    E.models[S.wf_tree_def] = gen_class_pred(bb.Struct)
    E.models[S.wf_union_def] = gen_class_pred(bb.Union)

    def m_field_index(E, args, kw):
        D, n = args
        f = z3.Function('FieldIndex', vals.VS, vals.VS, z3.IntSort())
        k = f(E.lift(D), E.lift(n))
        fields = E.getattr_(D, '_all_fields_')
        E.path.index(k, Val.llen(E.lift(fields)))
        return I.T(Val.VInt(k))
    E.models[S.field_index] = m_field_index

    def m_dict_with(E, args, kw):
        d, k, v = args
        return B.dict_store(E, I.T(E.lift(d)), k, v)
    E.models[S.dict_with] = m_dict_with

    def m_dict_update(E, args, kw):
        a, b = args
        return B.dict_update(E, I.T(E.lift(a)), I.T(E.lift(b)))
    E.models[S.dict_update] = m_dict_update
    install_spec_models(E)
    return E


def install_spec_models(E):
    M = E.models

    def m_ret(E, args, kw):
        v = args[0] if args else I.C(None)
        return I.SOutcome(False, z3.IntVal(0), E.lift(v))
    M[CT.Ret] = m_ret

    def m_raise(E, args, kw):
        (k,) = args
        if not isinstance(k, I.C):
            raise I.Unsupported('Raise() of symbolic class')
        return I.SOutcome(True, z3.IntVal(E.classes.cid(k.v)), Val.VNone)
    M[CT.Raise] = m_raise

    def m_implies(E, args, kw):
        a, b = args
        ta, tb = E.truth(a), E.truth(b)
        if isinstance(ta, bool):
            return E.bool_sv(tb) if ta else I.C(True)
        return E.bool_sv(z3.Implies(ta, I._zb(tb)))
    M[CT.implies] = m_implies


class FunctionReport:
    def __init__(self, target):
        self.target = target
        self.file = None
        self.lines = None
        self.sha256 = None
        self.paths = 0
        self.obligations = []
        self.covers = []
        self.unsupported = None
        self.seconds = 0.0
        self.solver_seconds = 0.0
        self.inlined = []
        self.assumptions = []
        self.failed = []

    def to_json(self):
        return {
            'target': self.target, 'file': self.file, 'lines': self.lines, 'sha256': self.sha256,
            'paths': self.paths, 'obligations': [o.to_json() for o in self.obligations],
            'covers': self.covers, 'unsupported': self.unsupported,
            'seconds': round(self.seconds, 3), 'solver_seconds': round(self.solver_seconds, 3),
            'inlined': self.inlined, 'assumptions': self.assumptions,
        }


def source_info(fn):
    if getattr(fn, '__pyvc_ast__', None) is not None:
        return (fn.__code__.co_filename, list(fn.__pyvc_lines__), fn.__pyvc_sha__)
    src = inspect.getsource(fn)
    lines, start = inspect.getsourcelines(fn)
    return (fn.__code__.co_filename, [start, start + len(lines) - 1],
            hashlib.sha256(src.encode('utf-8')).hexdigest())


# ----------------------------------------------------------------------------
# symbolic parameters


def make_param(E, p, name, kind):
    """Create the symbolic value of a parameter of kind ``kind`` on path p."""
    if isinstance(kind, CT.Lit):
        return I.C(kind.value)
    if isinstance(kind, CT.OneOf):
        restrict = getattr(E, 'param_restrict', None) or {}
        if name in restrict:
            # this run covers one alternative of the parameter kind only (the others are separate jobs)
            k = restrict[name]
            p.labels.append('%s:alt%d' % (name, k))
            return make_param(E, p, name, kind.kinds[k])
        k = p.choose([z3.BoolVal(True)] * len(kind.kinds), ['%s:alt%d' % (name, j) for j in range(len(kind.kinds))])
        return make_param(E, p, name, kind.kinds[k])
    if isinstance(kind, CT.AnyVal):
        t = z3.Const('p_' + name, vals.VS)
        p.assume(z3.Not(Val.is_VAbsent(t)))
        wf_value(E, p, t)
        return I.T(t)
    if isinstance(kind, CT.Json):
        t = z3.Const('p_' + name, vals.VS)
        p.assume(spec_is_json_shallow(t))
        wf_value(E, p, t)
        return I.T(t)
    if isinstance(kind, CT.Bool):
        return I.T(Val.VBool(z3.Const('p_' + name, z3.BoolSort())))
    if isinstance(kind, CT.Int):
        return I.T(Val.VInt(z3.Const('p_' + name, z3.IntSort())))
    if isinstance(kind, CT.Str):
        return I.T(Val.VStr(z3.Const('p_' + name, vals.STR)))
    if isinstance(kind, CT.Obj):
        oid = z3.Const('p_' + name + '_oid', z3.IntSort())
        p.assume(z3.And(oid >= 1, oid < I.ALLOC_BASE))
        c = E.classes.cls_of(oid)
        E.classes.cid(kind.cls)
        from .builtins_model import all_subclasses
        subs = [kind.cls] if kind.exact else [kind.cls] + all_subclasses(kind.cls)
        if kind.proper:
            subs = [k for k in subs if k is not kind.cls]
        for k in subs:
            E.classes.cid(k)
        if kind.generated:
            p.assume(z3.And(c > I.SYM_CLASS_BASE, E.classes.Sub(c, z3.IntVal(E.classes.cid(kind.cls)))))
        else:
            p.assume(z3.Or(*[c == E.classes.cid(k) for k in subs]))
        if kind.fresh:
            for s in E.instance_slots(kind.cls):
                arr = p.heap_arr(s)
                p.assume(z3.Select(arr, oid) == Val.VAbsent)
        return I.T(Val.VObj(oid))
    raise I.Unsupported('parameter kind %r' % (kind,))


def wf_value(E, p, t):
    """Shallow well-formedness facts every python value satisfies."""
    V = Val
    p.assume(z3.Implies(V.is_VList(t), V.llen(t) >= 0))
    p.assume(z3.Implies(V.is_VTuple(t), V.tlen(t) >= 0))
    p.assume(z3.Implies(V.is_VDict(t), V.dn(t) >= 0))
    p.assume(z3.Implies(V.is_VSet(t), V.sn(t) >= 0))
    p.assume(z3.Implies(V.is_VObj(t), z3.And(V.oid(t) >= 1, V.oid(t) < I.ALLOC_BASE)))


def spec_is_json_shallow(t):
    V = Val
    return z3.Or(V.is_VNone(t), V.is_VBool(t), V.is_VInt(t), V.is_VFloat(t), V.is_VStr(t),
                 V.is_VList(t), V.is_VDict(t))


# ----------------------------------------------------------------------------


def model_inputs(E, p, model, con, argsv):
    """Decode the model values of the parameters into JSON descriptions."""
    out = {}
    for name, sv in argsv.items():
        try:
            out[name] = decode_sv(E, p, model, sv)
        except Exception as e:       # undecodable: caller falls back to bounded search
            out[name] = {'k': 'undecodable', 'why': '%s: %s' % (type(e).__name__, e)}
    return out


def decode_sv(E, p, model, sv, depth=0):
    if isinstance(sv, I.C):
        return const_desc(sv.v)
    if isinstance(sv, I.T):
        t = model.eval(sv.t, model_completion=True)
        return decode_term(E, p, model, t, depth)
    raise vals.ModelDecodeError('cannot decode %r' % (sv,))


def const_desc(v):
    try:
        return CT.const_desc(v)
    except TypeError as e:
        raise vals.ModelDecodeError(str(e))


def decode_term(E, p, model, t, depth=0):
    if depth > 6:
        raise vals.ModelDecodeError('too deep')
    d = t.decl().name()
    if d == 'VObj':
        oid = t.arg(0)
        cidv = model.eval(E.classes.cls_of(oid), model_completion=True).as_long()
        cls = E.classes.by_id.get(cidv)
        if cls is None:
            return {'k': 'obj', 'cls': None, 'clsid': cidv, 'id': oid.as_long()}
        slots = {}
        names = set(E.instance_slots(cls))
        for a in p.heap:
            if a.startswith('H0_'):
                continue
        for name in sorted(names | set(k for k in p.heap if not E.instance_slots(cls))):
            arr = z3.Const('H0_' + name, z3.ArraySort(z3.IntSort(), vals.VS))
            v = model.eval(z3.Select(arr, oid), model_completion=True)
            if v.decl().name() == 'VAbsent':
                continue
            slots[name] = decode_term(E, p, model, v, depth + 1)
        return {'k': 'obj', 'cls': cls.__module__ + ':' + cls.__qualname__, 'slots': slots,
                'id': oid.as_long()}
    if d == 'VClass':
        cidv = t.arg(0).as_long()
        cls = E.classes.by_id.get(cidv)
        if cls is None:
            return {'k': 'class', 'cls': None, 'clsid': cidv}
        return {'k': 'class', 'cls': cls.__module__ + ':' + cls.__qualname__}
    if d in ('VList', 'VTuple'):
        n = t.arg(0).as_long()
        if n > 12:
            raise vals.ModelDecodeError('list too long in model')
        items = [decode_term(E, p, model, model.eval(z3.Select(t.arg(1), k), model_completion=True), depth + 1)
                 for k in range(n)]
        return {'k': 'list' if d == 'VList' else 'tuple', 'items': items}
    if d == 'VDict':
        n = t.arg(0).as_long()
        if n > 12:
            raise vals.ModelDecodeError('dict too long in model')
        items = []
        for k in range(n):
            kk = model.eval(z3.Select(t.arg(1), k), model_completion=True)
            vv = model.eval(z3.Select(t.arg(2), vals.KeyId(kk)), model_completion=True)
            items.append([decode_term(E, p, model, kk, depth + 1), decode_term(E, p, model, vv, depth + 1)])
        return {'k': 'dict', 'items': items}
    if d == 'VDatetime':
        tz = z3.Function('dt_tzinfo', z3.IntSort(), vals.VS)
        tzv = model.eval(tz(t.arg(0)), model_completion=True)
        desc = {'k': 'datetime', 'id': t.arg(0).as_long(), 'tz': tzv.decl().name()}
        if tzv.decl().name() != 'VNone':
            uo = z3.Function('tz_utcoffset', vals.VS, vals.VS, vals.VS)
            off = model.eval(uo(tzv, t), model_completion=True)
            desc['utcoffset'] = off.decl().name()
            ts = z3.Function('TimedeltaSeconds', vals.VS, vals.FP)
            secs = model.eval(ts(off), model_completion=True)
            try:
                f = vals._fp_to_py(secs)
                import math
                if not (math.isnan(f) or math.isinf(f)) and abs(f) < 86400:
                    desc['utcoffset_seconds'] = float(int(f)) if abs(f) >= 1 else (0.0 if f == 0 else (60.0 if f > 0 else -60.0))
            except Exception:
                pass
        return desc
    return vals.decode_val(model, t, depth)


# ----------------------------------------------------------------------------


def assume_not_known_cases(E, p, con, argsv):
    """A listed known finding: the obligation is proved outside its case (so
    any other way of violating the property still fails it)."""
    import ast as _ast
    for kf in getattr(con, '_known_cases', []):
        expr = _ast.parse(kf['case'], mode='eval').body
        g = dict(sys.modules[con.__module__].__dict__)
        fr = I.Frame(None, dict(argsv), g, None, None, 'known-case')
        old_fc = E.fail_conds
        E.fail_conds = None
        E.merge += 1
        try:
            c = E.eval(expr, fr)
        finally:
            E.merge -= 1
            E.fail_conds = old_fc
        p.assume(z3.Not(I._zb(E.truth(c))))
        if p.memo(lambda: p.check() == z3.unsat):
            raise I.PathAbort()


class Verifier:
    def __init__(self, tier='quick', seed=0):
        self.tier = tier
        self.seed = seed
        self.timeout = PROVE_TIMEOUT_MS[tier]
        self.rlimit = PROVE_RLIMIT[tier]

    def prove(self, E, p, name, goal, kind, rep, argsv=None, con=None):
        """Discharge ``pc => goal``."""
        t0 = time.time()
        g = z3.simplify(goal)
        if z3.is_true(g):
            ob = I.Obligation(name, kind, 'discharged', 'trivial', None, 0.0, list(p.labels))
            rep.obligations.append(ob)
            return ob
        E.saturate(p.solver.assertions() + [g])
        s = z3.Solver()
        s.set('rlimit', self.rlimit)
        s.set('random_seed', 0)
        for a in p.solver.assertions():
            s.add(a)
        for ax in vals.AXIOMS:
            s.add(ax)
        s.add(z3.Not(g))
        # stage 1: quantifier-free (quantified facts are present through their
        # instances at the index terms and skolem witnesses of this path)
        rl0 = _rl_now()
        r = s.check()
        effort = _rl(s) - rl0
        candidate_only = False
        if r != z3.unsat and p.qdefs:
            # stage 2: with the quantified definitions themselves.  A stage-1 `sat` is a model of
            # the abstraction only (the Bools standing for quantified facts are unconstrained
            # beyond their instances), so it is a verdict only when stage 2 does not contradict
            # it: unsat -> discharged, sat -> failed, unknown -> undecided (never `failed`).
            s2 = z3.Solver()
            s2.set('rlimit', self.rlimit)
            s2.set('random_seed', 0)
            for a in s.assertions():
                s2.add(a)
            for qd in p.qdefs:
                s2.add(qd)
            r2 = s2.check()
            effort = _rl(s2) - rl0
            if r2 == z3.unsat or r2 == z3.sat:
                r, s = r2, s2
            elif r == z3.sat:
                # keep the stage-1 model as a candidate input for the native replay only
                candidate_only = True
        model_json = None
        detail = str(r)
        if r == z3.sat:
            try:
                m = s.model()
                if argsv is not None:
                    model_json = model_inputs(E, p, m, con, argsv)
            except Exception as e:
                detail = 'sat (model extraction failed: %s)' % e
        elif r == z3.unknown:
            detail = 'unknown: ' + s.reason_unknown()
        dt = time.time() - t0
        rep.solver_seconds += dt
        status = 'discharged' if r == z3.unsat else ('failed' if r == z3.sat else 'unknown')
        if candidate_only and status == 'failed':
            status = 'unknown'
            detail = 'unknown: sat in the quantifier-free abstraction only; with the quantified definitions: ' + \
                     s2.reason_unknown()
        ob = I.Obligation(name, kind, status, detail, model_json, dt, list(p.labels))
        ob.effort = effort
        if status != 'discharged':
            ob.goal = str(g)[:2000]
        rep.obligations.append(ob)
        return ob

    def verify(self, E, con, restrict=None):
        """Verify one contract class against the function it targets.  ``restrict`` = {param: k}
        limits a OneOf parameter to its k-th alternative (case split across processes)."""
        E.yield_frame = con.opts.get('yield_frame')
        restrict = dict(restrict or {})
        E.force_choices = restrict.pop('#choices', None)
        E.param_restrict = restrict
        rep = FunctionReport(con.target)
        t0 = time.time()
        vals.reset_axioms()
        from . import genmodel as _gm
        _gm.NAMES_ACTIVE.clear()
        try:
            fn, owner = CT.resolve(con.target)
        except Exception as e:
            rep.unsupported = 'cannot resolve target: %s: %s' % (type(e).__name__, e)
            return rep
        if con.opts.get('contextmanager') and hasattr(fn, '__wrapped__'):
            # @contextmanager: the generator function itself is what is executed symbolically (yield = the
            # point where the caller's with-body runs)
            fn = fn.__wrapped__
        rep.file, rep.lines, rep.sha256 = source_info(fn)
        params = con.params
        pathno = [0]
        outcomes = {'return': 0, 'raise': 0}
        argstore = {}
        pre_cache = {}
        E.inlined = set()
        E.assumptions = set()

        def run(p):
            argsv = {}
            for name, kind in params.items():
                if isinstance(kind, CT.Default):
                    continue
                argsv[name] = make_param(E, p, name, kind)
            argstore['cur'] = argsv
            pkey = tuple(p.decisions)
            n_ev0 = len(p.decisions)
            if pkey in pre_cache:
                # the symbolic parameters have fixed names: what the evaluation of
                # requires()/expected() on the pre-state added is the same on every path
                rec = pre_cache[pkey]
                for f in rec['pc']:
                    p.assume(f)
                p.qdefs.extend(rec['qdefs'])
                p.quants.extend(rec['quants'])
                p.indices.extend(rec['indices'])
                p.keyquants.extend(rec['keyquants'])
                p.keylookups.extend(rec['keylookups'])
                for k, v in rec['ghost'].items():
                    # per-path caches are copied, never shared between paths
                    p.ghost.setdefault(k, _copy_cache(v))
                p.heap = dict(rec['heap'])
                p.fresh_n = max(p.fresh_n, rec['fresh_n'])
                p.exp = rec['exp']
                p.skip_events(rec['events'])
                if rec['infeasible']:
                    raise I.PathAbort()
            else:
                n_pc, n_qd, n_qu, n_ix = len(p.pc), len(p.qdefs), len(p.quants), len(p.indices)
                n_kq, n_kl = len(p.keyquants), len(p.keylookups)
                infeasible = False
                req = con.__dict__.get('requires')
                if req is not None:
                    r = eval_spec(E, req, list(argsv.values()))
                    b = E.truth(r)
                    p.assume(I._zb(b))
                    if p.memo(lambda: p.check() == z3.unsat):
                        infeasible = True
                if not infeasible:
                    try:
                        assume_not_known_cases(E, p, con, argsv)
                    except I.PathAbort:
                        infeasible = True
                p.exp = None
                exp_fn0 = con.__dict__.get('expected')
                if exp_fn0 is not None and not infeasible:
                    p.exp = eval_spec(E, exp_fn0, list(argsv.values()))
                pre_cache[pkey] = {'pc': list(p.pc[n_pc:]), 'qdefs': list(p.qdefs[n_qd:]),
                                   'quants': list(p.quants[n_qu:]), 'indices': list(p.indices[n_ix:]),
                                   'keyquants': list(p.keyquants[n_kq:]), 'keylookups': list(p.keylookups[n_kl:]),
                                   'ghost': dict((k, _copy_cache(v)) for k, v in p.ghost.items()
                                                 if not (isinstance(k, tuple) and k and k[0] in ('mustnot',))),
                                   'heap': dict(p.heap), 'fresh_n': p.fresh_n, 'exp': p.exp,
                                   'infeasible': infeasible, 'events': len(p.decisions) - n_ev0}
                if infeasible:
                    raise I.PathAbort()
            p.heap0 = dict(p.heap)
            snap = con.__dict__.get('snapshot')
            p.snap = eval_spec(E, snap, list(argsv.values())) if snap is not None else None
            pos = [argsv[n] for n in params if n in argsv]
            return E.inline(fn, pos, {}, owner)

        def on_path(p, outcome):
            pathno[0] += 1
            argsv = argstore['cur']
            kind, v = outcome
            outcomes[kind] += 1
            name = '%s#path%d' % (con.target, pathno[0])
            exp_fn = con.__dict__.get('expected')
            goal = z3.BoolVal(True)
            if exp_fn is not None:
                # the expected outcome is a function of the pre-state (evaluated once, before the body)
                exp = p.exp
                if not isinstance(exp, I.SOutcome):
                    raise I.Unsupported('expected() did not return an outcome: %r' % (exp,))
                if kind == 'return':
                    goal = z3.And(z3.Not(I._zb(exp.israise)), exp.val == E.lift(v))
                else:
                    goal = z3.And(I._zb(exp.israise), exp.clsid == E.classes.cid(v.cls))
            ens = con.__dict__.get('ensures')
            if ens is not None:
                res = v if kind == 'return' else I.C(None)
                exc = I.C(v.cls if kind == 'raise' else None)
                extra = [p.snap] if getattr(p, 'snap', None) is not None else []
                r = eval_spec(E, ens, list(argsv.values()) + [res, exc] + extra)
                goal = z3.And(goal, I._zb(E.truth(r)))
            desc = '%s %s' % (kind, v.cls.__name__ if kind == 'raise' else '')
            ob = self.prove(E, p, name + ':post', goal, 'post', rep, argsv, con)
            ob.outcome = desc
            rep.failed.extend([ob] if ob.status != 'discharged' else [])

        def on_require(goal, name):
            p = E.path
            ob = self.prove(E, p, '%s#path%d:%s' % (con.target, pathno[0] + 1, name), goal, 'pre', rep,
                            argstore.get('cur'), con)
            rep.failed.extend([ob] if ob.status != 'discharged' else [])
        E.on_require = on_require
        E.cur_con, E.cur_fn = con, fn
        # the candidate classes are fixed for the whole exploration; closed world per
        # module family: values handled by the runtime are never IR / AST objects and vice versa
        E.class_snapshot = class_universe(E, con.target, con.opts.get('universe'))
        E.unfold_only = con.opts.get('unfold')
        install_contracts(E)
        try:
            rep.paths = E.explore(run, on_path)
        except I.Unsupported as e:
            rep.unsupported = str(e)
        except z3.Z3Exception as e:
            rep.unsupported = 'z3 error: %s' % e
        except RecursionError:
            rep.unsupported = 'recursion limit'
        rep.covers.append({'returns': outcomes['return'], 'raises': outcomes['raise']})
        rep.inlined = sorted(E.inlined)
        rep.assumptions = sorted(E.assumptions)
        rep.seconds = time.time() - t0
        return rep


def class_universe(E, target, universe=None):
    fam = universe
    if fam is None:
        if target.startswith('stone.backends.python_rsrc'):
            fam = 'runtime'
        elif target.startswith('stone.ir') or target.startswith('stone.frontend'):
            fam = 'ir'
        else:
            fam = 'all'
    out = []
    for K in E.classes.known():
        mod = getattr(K, '__module__', '')
        if fam == 'all' or not mod.startswith('stone.'):
            out.append(K)
        elif fam == 'runtime' and mod.startswith('stone.backends.python_rsrc'):
            out.append(K)
        elif fam == 'ir' and (mod.startswith('stone.ir') or mod.startswith('stone.frontend')):
            out.append(K)
    return out


def _copy_cache(v):
    if isinstance(v, dict):
        return dict(v)
    if isinstance(v, list):
        return list(v)
    if isinstance(v, set):
        return set(v)
    return v


def _fn(f):
    if isinstance(f, (staticmethod, classmethod)):
        return f.__func__
    return f


def eval_spec(E, f, args, unfold=True):
    """Evaluate a SpecPy function in merge mode.  Failure conditions of
    specification code are not collected (specifications are total); with
    ``unfold=False`` recursive specification symbols stay folded."""
    old_fc, old_pc = E.fail_conds, getattr(E, 'pre_conds', None)
    old_ud = E.unfold_depth
    E.fail_conds, E.pre_conds = None, None
    if not unfold:
        E.unfold_depth = 1000
    E.merge += 1
    try:
        return E.call_function(_fn(f), list(args), {})
    finally:
        E.merge -= 1
        E.fail_conds, E.pre_conds = old_fc, old_pc
        E.unfold_depth = old_ud


def cofactor(t, cond):
    """Simplify the ite-tree ``t`` under the assumption ``cond`` (syntactic:
    tests identical to cond / its negation are resolved)."""
    ncond = z3.simplify(z3.Not(cond))
    def rec(x, depth):
        if depth > 40 or not (z3.is_app(x) and x.decl().kind() == z3.Z3_OP_ITE):
            return x
        c = z3.simplify(x.arg(0))
        if c.eq(cond):
            return rec(x.arg(1), depth + 1)
        if c.eq(ncond):
            return rec(x.arg(2), depth + 1)
        return z3.If(x.arg(0), rec(x.arg(1), depth + 1), rec(x.arg(2), depth + 1))
    return rec(t, 0)


class ContractAdapter:
    """Modular use of a contract at a call site: the callee's body is not
    looked at; its ``requires`` becomes an obligation, its ``expected`` /
    ``ensures`` the only knowledge about the result."""

    def __init__(self, con, fn):
        self.con = con
        self.fn = fn

    def apply(self, E, args, kwargs):
        con = self.con
        names = [n for n in con.params]
        node = I.func_ast(self.fn)
        loc = E.bind_args(node.args, self.fn, args, kwargs)
        vals_ = [loc[n] for n in names if n in loc and not isinstance(con.params[n], CT.Default)]
        req = con.__dict__.get('requires')
        unfold = bool(con.opts.get('unfold_at_call'))
        pre = None
        if req is not None:
            r = eval_spec(E, req, vals_, unfold)
            b = I._zb(E.truth(r))
            if E.merge:
                if getattr(E, 'pre_conds', None) is not None:
                    E.pre_conds.append(b)
                pre = z3.simplify(b)
            else:
                E.require(b, 'pre:%s' % con.target.split(':')[1])
        exp_fn = con.__dict__.get('expected')
        if exp_fn is None:
            return self.apply_relational(E, vals_)
        if pre is not None and not z3.is_true(pre):
            # the contract speaks under its precondition
            with E.assuming(pre):
                exp = eval_spec(E, exp_fn, vals_, unfold)
        else:
            exp = eval_spec(E, exp_fn, vals_, unfold)
        if not isinstance(exp, I.SOutcome):
            raise I.Unsupported('expected() of %s did not return an outcome' % con.target)
        israise = I._zb(exp.israise)
        raises = con.opts.get('raises') or []
        if E.merge:
            sr = z3.simplify(israise)
            if not z3.is_false(sr):
                k = self._exc_class(E, exp, raises)
                if E.fail_conds is not None:
                    E.fail_conds.append((sr, k, 'callee ' + con.target.split(':')[1]))
            # the value is only meaningful when the callee does not raise
            return I.T(cofactor(exp.val, z3.simplify(z3.Not(sr))))
        if E.path.branch(israise, 'callee-raises:' + con.target.split(':')[1]):
            k = self._exc_class(E, exp, raises)
            raise I.PyRaise(I.SExc(k, [I.T(E.path.fresh('excmsg'))]))
        return I.T(cofactor(exp.val, z3.simplify(z3.Not(israise))))

    def apply_relational(self, E, vals_):
        """Contract given by ``ensures`` only: the result is a fresh value
        about which exactly ``ensures`` is known; the declared ``raises``
        classes are possible outcomes."""
        con = self.con
        ens = con.__dict__.get('ensures')
        if ens is None:
            raise I.Unsupported('contract %s has neither expected() nor ensures()' % con.target)
        raises = con.opts.get('raises') or []
        if raises:
            raise I.Unsupported('relational contract with exceptional outcomes: %s' % con.target)
        r = I.T(E.path.fresh('res_' + con.target.split(':')[1].replace('.', '_')))
        b = eval_spec(E, ens, list(vals_) + [r, I.C(None)], bool(con.opts.get('unfold_at_call')))
        E.scoped_assume(I._zb(E.truth(b)))
        return r

    def _exc_class(self, E, exp, raises):
        c = z3.simplify(exp.clsid)
        if z3.is_int_value(c):
            return E.classes.by_id[c.as_long()]
        if len(raises) == 1:
            return raises[0]
        if E.merge:
            raise I.Unsupported('callee may raise several classes inside a summary')
        conds = [exp.clsid == E.classes.cid(k) for k in raises]
        if not conds:
            raise I.Unsupported('contract %s: exception class not determined; declare raises=[...]' % self.con.target)
        j = E.path.choose(conds, ['exc:' + k.__name__ for k in raises])
        return raises[j]


def install_contracts(E, skip_target=None):
    """Register every contract (except the one under proof at top level --
    handled by inlining the body directly) for modular use."""
    E.contracts = {}
    E.virtual = {}
    for target, con in CT.REGISTRY.items():
        if con.opts.get('canary') or '#' in target:
            # 'pkg.mod:func#name': a second (native-only) contract on a function; never used at call sites
            continue
        try:
            fn, owner = CT.resolve(target)
        except Exception:
            continue
        E.contracts[fn] = ContractAdapter(con, fn)
        if con.opts.get('virtual'):
            E.virtual[(tuple(con.opts['virtual_for']) if con.opts.get('virtual_for') else owner, fn.__name__)] = fn


def verify_lemma(V, E, lem):
    """Prove ``hypothesis => statement`` for all parameters."""
    rep = FunctionReport(lem.target)
    t0 = time.time()
    vals.reset_axioms()
    rep.file = inspect.getsourcefile(lem)
    E.inlined = set()
    E.assumptions = set()
    store = {}
    n = [0]

    def run(p):
        argsv = {}
        for name, kind in lem.params.items():
            argsv[name] = make_param(E, p, name, kind)
        store['cur'] = argsv
        hyp = lem.__dict__.get('hypothesis')
        if hyp is not None:
            r = eval_spec(E, hyp, list(argsv.values()))
            p.assume(I._zb(E.truth(r)))
            if p.memo(lambda: p.check() == z3.unsat):
                raise I.PathAbort()
        assume_not_known_cases(E, p, lem, argsv)
        p.heap0 = dict(p.heap)
        st = eval_spec(E, lem.__dict__['statement'], list(argsv.values()))
        return st

    def on_path(p, outcome):
        n[0] += 1
        kind, v = outcome
        if kind != 'return':
            raise I.Unsupported('lemma evaluation raised %s' % v.cls.__name__)
        goal = I._zb(E.truth(v))
        ob = V.prove(E, p, '%s#case%d' % (lem.target, n[0]), goal, 'lemma', rep, store['cur'], lem)
        rep.failed.extend([ob] if ob.status != 'discharged' else [])

    E.on_require = lambda goal, name: None
    install_contracts(E)
    try:
        rep.paths = E.explore(run, on_path)
    except I.Unsupported as e:
        rep.unsupported = str(e)
    except z3.Z3Exception as e:
        rep.unsupported = 'z3 error: %s' % e
    rep.inlined = sorted(E.inlined)
    rep.assumptions = sorted(E.assumptions)
    rep.seconds = time.time() - t0
    return rep
