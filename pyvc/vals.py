"""z3 universe of Python values used by PyVC.

One algebraic sort ``Val`` models every Python value the engine knows about
(closed world, see DESIGN.md section 2.1).  Lists and tuples are (length, array)
pairs; dicts are (key-count, key-order array, total map with VAbsent default);
floats are IEEE doubles; ints are mathematical integers; strings use the z3
string theory (opaque to most proofs: equality and length only).
"""
import z3

_ctx_built = False


def _build():
    global VS, _ctx_built
    D = z3.Datatype('Val')
    F = z3.DatatypeSort('Val')
    I = z3.IntSort()
    D.declare('VNone')
    D.declare('VNotSet')          # bb.NOT_SET singleton
    D.declare('VNoDefault')       # bb.NO_DEFAULT singleton
    D.declare('VAbsent')          # "no such key / attribute" marker, never a real value
    D.declare('VBool', ('b', z3.BoolSort()))
    D.declare('VInt', ('i', I))
    D.declare('VFloat', ('fid', I))           # payload: FpOf(fid)
    D.declare('VStr', ('sid', I))             # payload: StrOf(sid)
    D.declare('VBytes', ('bid', I))           # payload: StrOf(bid) (latin-1 text of the bytes)
    D.declare('VList', ('llen', I), ('larr', z3.ArraySort(I, F)))
    D.declare('VTuple', ('tlen', I), ('tarr', z3.ArraySort(I, F)))
    D.declare('VDict', ('dn', I), ('dk', z3.ArraySort(I, F)), ('dm', z3.ArraySort(I, F)))
    D.declare('VSet', ('sn', I), ('sk', z3.ArraySort(I, F)), ('sm', z3.ArraySort(I, z3.BoolSort())))
    D.declare('VObj', ('oid', I))         # instance of a class of the tree / generated class
    D.declare('VClass', ('cid', I))       # a class object
    D.declare('VDatetime', ('dtid', I))   # datetime.datetime instance (opaque id)
    D.declare('VFunc', ('fnid', I))        # callable (opaque id)
    D.declare('VOther', ('xid', I))       # any other object kind (opaque)
    VS = D.create()
    _ctx_built = True


_build()

FP = z3.Float64()

# Float and string payloads live outside the datatype: a VFloat / VStr / VBytes
# carries an integer id; FpOf / StrOf give the payload and FpId / StrId are
# their inverses (axioms instantiated for the terms that occur, see AXIOMS).
# This keeps the floating-point and sequence theories out of every query that
# merely splits on the kind of a value.
FpOf = z3.Function('FpOf', z3.IntSort(), FP)
FpId = z3.Function('FpId', FP, z3.IntSort())

# Strings are opaque: a string is an integer code.  Literals are interned
# (distinct literals get distinct codes, "" is 0); every other string is some
# integer.  Length, concatenation, prefix tests ... are uninterpreted functions
# over codes.  (Measured: the mere presence of z3's String sort in the queries
# of this engine makes satisfiable instances 100x slower.)
STR = z3.IntSort()
_LIT = {'': 0}
_LIT_REV = {0: ''}


def strlit(text):
    if text not in _LIT:
        code = len(_LIT)
        _LIT[text] = code
        _LIT_REV[code] = text
    return z3.IntVal(_LIT[text])


def is_strlit(t):
    t = z3.simplify(t) if z3.is_expr(t) else t
    return z3.is_int_value(t) and t.as_long() in _LIT_REV


def strlit_text(t):
    return _LIT_REV[z3.simplify(t).as_long()]

AXIOMS = []
_AX_SEEN = set()
KEEP = []
SAT_SEEN = set()
SAT_NAX = [0]


def tid(t):
    """id of a term used as a cache key; the term is kept alive so that z3
    cannot recycle the id for another term while the cache lives"""
    KEEP.append(t)
    return t.get_id()


def reset_axioms():
    del AXIOMS[:]
    _AX_SEEN.clear()
    del KEEP[:]
    SAT_SEEN.clear()
    SAT_NAX[0] = 0


def _axiom(key, fact):
    if key in _AX_SEEN:
        return
    _AX_SEEN.add(key)
    AXIOMS.append(fact)


class _ValNS(object):
    """The Val sort seen through payload accessors: Val.s(t) is the string of
    a VStr, Val.VStr(s) builds one from a z3 String, likewise f / VFloat and
    bs / VBytes; everything else is the datatype itself."""

    def __getattr__(self, name):
        return getattr(VS, name)

    def VStr(self, s):
        return VS.VStr(s)

    def VBytes(self, s):
        return VS.VBytes(s)

    def VFloat(self, f):
        _axiom(('fo', tid(f)), FpOf(FpId(f)) == f)
        return VS.VFloat(FpId(f))

    def s(self, t):
        return z3.simplify(VS.sid(t))

    def bs(self, t):
        return z3.simplify(VS.bid(t))

    def f(self, t):
        i = z3.simplify(VS.fid(t))
        if z3.is_app(i) and i.decl().name() == 'FpId':
            return i.arg(0)
        _axiom(('fi', tid(i)), FpId(FpOf(i)) == i)
        return FpOf(i)


Val = _ValNS()
V = Val


# dict / set keys: maps are keyed by KeyId(key); KeyInv is its left inverse, so
# adding ``KeyInv(KeyId(k)) == k`` for every key term that occurs makes KeyId
# injective on those terms without quantifiers.
KeyId = z3.Function('KeyId', VS, z3.IntSort())
KeyInv = z3.Function('KeyInv', z3.IntSort(), VS)


def key_axiom(k):
    return KeyInv(KeyId(k)) == k

RNE = z3.RNE()


def vnone():
    return Val.VNone


def vbool(b):
    return Val.VBool(b if z3.is_expr(b) else z3.BoolVal(bool(b)))


def vint(i):
    return Val.VInt(i if z3.is_expr(i) else z3.IntVal(int(i)))


def vfloat(f):
    if z3.is_expr(f):
        return Val.VFloat(f)
    return Val.VFloat(fpval(f))


def fpval(x):
    import math
    x = float(x)
    if math.isnan(x):
        return z3.fpNaN(FP)
    if math.isinf(x):
        return z3.fpPlusInfinity(FP) if x > 0 else z3.fpMinusInfinity(FP)
    if x == 0.0 and math.copysign(1.0, x) < 0:
        return z3.fpMinusZero(FP)
    return z3.FPVal(x, FP)


def vstr(s):
    return Val.VStr(s if z3.is_expr(s) else strlit(s))


def vbytes(s):
    if z3.is_expr(s):
        return Val.VBytes(s)
    return Val.VBytes(strlit(s.decode('latin-1') if isinstance(s, (bytes, bytearray)) else s))


def is_integral(t):
    return z3.Or(Val.is_VBool(t), Val.is_VInt(t))


def is_real(t):
    return z3.Or(Val.is_VBool(t), Val.is_VInt(t), Val.is_VFloat(t))


def int_of(t):
    """Integer value of a bool/int Val (unspecified otherwise)."""
    return z3.If(Val.is_VBool(t), z3.If(Val.b(t), z3.IntVal(1), z3.IntVal(0)), Val.i(t))


# float(int): uninterpreted, monotone, with the overflow threshold axiom.  The
# exact conversion is used when re-solving for replayable models.
I2F = z3.Function('I2F', z3.IntSort(), FP)
F64_OVERFLOW = 2 ** 1024 - 2 ** 970    # |i| >= this  <=>  float(i) overflows


def i2f_axioms(i):
    """Instance axioms for I2F at integer term ``i``."""
    f = I2F(i)
    big = z3.Or(i >= F64_OVERFLOW, i <= -F64_OVERFLOW)
    return [
        z3.Not(z3.fpIsNaN(f)),
        z3.fpIsInf(f) == big,
        z3.Implies(i >= 0, z3.Not(z3.fpIsNegative(f))),
        z3.Implies(i < 0, z3.fpIsNegative(f)),
        z3.Implies(i == 0, f == z3.FPVal(0.0, FP)),
        z3.Implies(i == 1, f == z3.FPVal(1.0, FP)),
    ]


def py_to_val(x):
    """Lift a concrete Python value to a Val term (only plain data)."""
    if x is None:
        return Val.VNone
    if isinstance(x, bool):
        return vbool(x)
    if isinstance(x, int):
        return vint(x)
    if isinstance(x, float):
        return vfloat(x)
    if isinstance(x, str):
        return vstr(x)
    if isinstance(x, (bytes, bytearray)):
        return vbytes(bytes(x))
    if isinstance(x, (list, tuple)):
        arr = z3.K(z3.IntSort(), Val.VAbsent)
        for k, e in enumerate(x):
            arr = z3.Store(arr, k, py_to_val(e))
        return (Val.VList if isinstance(x, list) else Val.VTuple)(z3.IntVal(len(x)), arr)
    if isinstance(x, (set, frozenset)):
        ka = z3.K(z3.IntSort(), Val.VAbsent)
        m = z3.K(z3.IntSort(), z3.BoolVal(False))
        for k, e in enumerate(sorted(x, key=repr)):
            kt = py_to_val(e)
            ka = z3.Store(ka, k, kt)
            m = z3.Store(m, KeyId(kt), z3.BoolVal(True))
        return Val.VSet(z3.IntVal(len(x)), ka, m)
    if isinstance(x, dict):
        ka = z3.K(z3.IntSort(), Val.VAbsent)
        m = z3.K(z3.IntSort(), Val.VAbsent)
        for k, (kk, vv) in enumerate(x.items()):
            kt = py_to_val(kk)
            ka = z3.Store(ka, k, kt)
            m = z3.Store(m, KeyId(kt), py_to_val(vv))
        return Val.VDict(z3.IntVal(len(x)), ka, m)
    raise TypeError('cannot lift %r' % (x,))


class ModelDecodeError(Exception):
    pass


def val_from_model(model, term, depth=0):
    """Evaluate a Val term in a model to a Python description (JSON-able)."""
    t = model.eval(term, model_completion=True)
    return decode_val(model, t, depth)


def _fp_to_py(t):
    import math
    if z3.is_fprm(t):
        raise ModelDecodeError('rm')
    s = str(t)
    if z3.is_fp_value(t):
        if t.isNaN():
            return float('nan')
        if t.isInf():
            return float('-inf') if t.isNegative() else float('inf')
        if t.isZero():
            return -0.0 if t.isNegative() else 0.0
        sig = t.significand_as_long()
        exp = t.exponent_as_long(biased=True)
        sign = t.sign()
        import struct
        bits = (int(sign) << 63) | (exp << 52) | sig
        return struct.unpack('>d', struct.pack('>Q', bits))[0]
    raise ModelDecodeError('not fp value: ' + s)


def decode_val(model, t, depth=0):
    """Decode an evaluated Val to {'k': kind, ...}."""
    if depth > 6:
        return {'k': 'deep'}
    d = t.decl().name()
    if d == 'VNone':
        return {'k': 'none'}
    if d == 'VNotSet':
        return {'k': 'notset'}
    if d == 'VNoDefault':
        return {'k': 'nodefault'}
    if d == 'VAbsent':
        return {'k': 'absent'}
    if d == 'VBool':
        return {'k': 'bool', 'v': z3.is_true(t.arg(0))}
    if d == 'VInt':
        return {'k': 'int', 'v': t.arg(0).as_long()}
    if d == 'VFloat':
        f = _fp_to_py(model.eval(FpOf(t.arg(0)), model_completion=True))
        return {'k': 'float', 'v': repr(f)}
    if d == 'VStr':
        return {'k': 'str', 'v': _zstr(t.arg(0))}
    if d == 'VBytes':
        return {'k': 'bytes', 'v': _zstr(t.arg(0))}
    if d in ('VList', 'VTuple'):
        n = t.arg(0).as_long()
        items = []
        for k in range(max(0, min(n, 8))):
            e = model.eval(z3.Select(t.arg(1), k), model_completion=True)
            items.append(decode_val(model, e, depth + 1))
        return {'k': 'list' if d == 'VList' else 'tuple', 'n': n, 'items': items}
    if d == 'VDict':
        n = t.arg(0).as_long()
        items = []
        for k in range(max(0, min(n, 8))):
            kk = model.eval(z3.Select(t.arg(1), k), model_completion=True)
            vv = model.eval(z3.Select(t.arg(2), KeyId(kk)), model_completion=True)
            items.append([decode_val(model, kk, depth + 1), decode_val(model, vv, depth + 1)])
        return {'k': 'dict', 'n': n, 'items': items}
    if d == 'VSet':
        n = t.arg(0).as_long()
        items = []
        for k in range(max(0, min(n, 8))):
            items.append(decode_val(model, model.eval(z3.Select(t.arg(1), k), model_completion=True), depth + 1))
        return {'k': 'set', 'n': n, 'items': items}
    if d == 'VObj':
        return {'k': 'obj', 'id': t.arg(0).as_long()}
    if d == 'VClass':
        return {'k': 'class', 'id': t.arg(0).as_long()}
    if d == 'VDatetime':
        return {'k': 'datetime', 'id': t.arg(0).as_long()}
    if d == 'VFunc':
        return {'k': 'func', 'id': t.arg(0).as_long()}
    if d == 'VOther':
        return {'k': 'other', 'id': t.arg(0).as_long()}
    raise ModelDecodeError('unknown Val term %s' % t)


def _zstr(t):
    """text of a string code in a model: the literal, or a made-up distinct text"""
    if z3.is_int_value(t):
        k = t.as_long()
        if k in _LIT_REV:
            return _LIT_REV[k]
        return 's%d' % k if k >= 0 else 'n%d' % -k
    raise ModelDecodeError('not a string value: %s' % t)


# length of strings / bytes: an uninterpreted function unless the engine runs
# in string-theory mode (keeps the sequence solver out of queries that only
# need "a length")
StrLenUF = z3.Function('StrLen', z3.IntSort(), z3.IntSort())
STRING_THEORY = [False]


def strlen(s):
    s = z3.simplify(s)
    if is_strlit(s):
        return z3.IntVal(len(strlit_text(s)))
    return StrLenUF(s)


def strlen_axioms(s):
    s = z3.simplify(s)
    if is_strlit(s):
        return []
    ax = [StrLenUF(s) >= 0, (StrLenUF(s) == 0) == (s == strlit(""))]
    # the lengths of the literals that occur
    for text, code in list(_LIT.items())[:200]:
        ax.append(z3.Implies(s == code, StrLenUF(s) == len(text)))
    return ax
