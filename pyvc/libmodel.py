"""Models of the path library used by stone/backend.py (C18): os.path functions are uninterpreted
functions over strings (their semantics enters only through axiom PATH in spec/backend.py, which is
validated natively on enumerated paths); file-system effects are recorded in the ghost trace of the
path (``Path.trace``) instead of being performed."""
import os
import shutil

import z3

from . import interp as I
from . import vals
from .vals import Val


def _str_args(E, name, args):
    ts = [E.lift(a) for a in args]
    for t in ts:
        E.fail_if(z3.Not(Val.is_VStr(t)), TypeError, 'expected str, bytes or os.PathLike object')
    return ts


def _pure(name, nargs, ret):
    def model(E, args, kwargs):
        if kwargs or len(args) != nargs:
            raise I.Unsupported('%s with %d args / keywords' % (name, len(args)))
        ts = _str_args(E, name, args)
        if ret == 'str':
            f = z3.Function('os_' + name, *([vals.STR] * nargs + [vals.STR]))
            return I.T(Val.VStr(f(*[Val.s(t) for t in ts])))
        f = z3.Function('os_' + name, *([vals.STR] * nargs + [z3.BoolSort()]))
        return E.bool_sv(f(*[Val.s(t) for t in ts]))
    return model


def effect(E, kind, *terms):
    E.path.trace.append((kind,) + tuple(terms))


def install(E):
    M = E.models
    M[os.path.abspath] = _pure('abspath', 1, 'str')
    M[os.path.relpath] = _pure('relpath', 2, 'str')
    M[os.path.isabs] = _pure('isabs', 1, 'bool')
    M[os.path.join] = _pure('join', 2, 'str')
    M[os.path.basename] = _pure('basename', 1, 'str')
    M[os.path.dirname] = _pure('dirname', 1, 'str')
    # queries of the file-system state: uninterpreted in the path (the state is not modelled; the
    # functions under contract branch on them, both outcomes are explored)
    M[os.path.isdir] = _pure('isdir', 1, 'bool')
    M[os.path.exists] = _pure('exists', 1, 'bool')

    def m_makedirs(E, args, kwargs):
        ts = _str_args(E, 'makedirs', args[:1])
        effect(E, 'makedirs', ts[0])
        return I.C(None)
    M[os.makedirs] = m_makedirs

    def m_copy(E, args, kwargs):
        ts = _str_args(E, 'copy', args[:2])
        effect(E, 'copy', ts[1])
        # shutil.copy returns the path of the new file: dst, or dst/basename(src) when dst is a directory
        f = z3.Function('shutil_copy_result', vals.STR, vals.STR, vals.STR)
        return I.T(Val.VStr(f(Val.s(ts[0]), Val.s(ts[1]))))
    M[shutil.copy] = m_copy


def install_io(E):
    import builtins
    import logging

    def m_open(E, args, kwargs):
        ts = _str_args(E, 'open', args[:1])
        mode = args[1] if len(args) > 1 else kwargs.get('mode', I.C('r'))
        if not (isinstance(mode, I.C) and isinstance(mode.v, str)):
            raise I.Unsupported('open() with a symbolic mode')
        if any(c in mode.v for c in 'wax+'):
            effect(E, 'open', ts[0])          # creates / truncates the file
        return I.SFile(ts[0], mode)
    E.models[builtins.open] = m_open
    # logging: calls on the backend's logger have no effect the contracts talk about
    E.classes.cid(logging.Logger)
    for name in ('info', 'debug', 'warning', 'error'):
        E.models[getattr(logging.Logger, name)] = lambda E_, args, kwargs: I.C(None)


def install_spec(E):
    """spec-side access to the ghost trace"""
    import spec.backend as SB

    def m_encodable(E, args, kwargs):
        t = E.lift(args[0])
        ok = z3.Function('Utf8Ok', vals.STR, z3.BoolSort())
        return E.bool_sv(z3.And(Val.is_VStr(t), ok(Val.s(t))))
    E.models[SB.encodable] = m_encodable

    def m_fs_effects(E, args, kwargs):
        # the effects performed so far on this path: a concrete list (paths have no loops over effects)
        return I.SList([I.STuple([I.C(ev[0])] + [I.T(t) for t in ev[1:]]) for ev in E.path.trace if ev[0] != 'yield'])
    E.models[SB.fs_effects] = m_fs_effects


def install_order(E):
    """spec-side predicates about sorted lists (spec/order.py)"""
    import spec.order as SO

    def m_sorted_by(E, args, kwargs):
        t = E.lift(args[0])
        key = args[1]
        if not isinstance(key, I.C):
            raise I.Unsupported('sorted_by with a symbolic key')
        kname = key.v if key.v is not None else '<natural order>'
        return E.bool_sv(z3.Function('IsSortedBy_' + kname, vals.VS, z3.BoolSort())(t))
    E.models[SO.sorted_by] = m_sorted_by

    def m_perm(E, args, kwargs):
        a, b = E.lift(args[0]), E.lift(args[1])
        if a.eq(b):
            return I.C(True)
        return E.bool_sv(z3.Function('PermutationOf', vals.VS, vals.VS, z3.BoolSort())(a, b))
    E.models[SO.permutation_of] = m_perm
