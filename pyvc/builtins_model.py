"""Semantics of builtins, operators, attribute access and container
operations on symbolic values.  Everything not covered raises Unsupported."""
import ast
import re
import builtins as _bi
import inspect
import math
import numbers
import types
import z3

from . import vals
from .vals import Val

_MISSING = object()


def _I():
    from . import interp
    return interp


# ----------------------------------------------------------------------------
# kinds


def kind_cond(E, t, cls):
    """z3 condition for ``isinstance(<Val t>, cls)`` with cls a python class."""
    V = Val
    import datetime
    if cls is bool:
        return V.is_VBool(t)
    if cls is int or cls is numbers.Integral:
        return vals.is_integral(t)
    if cls is float:
        return V.is_VFloat(t)
    if cls is numbers.Real or cls is numbers.Number or cls is numbers.Complex or cls is numbers.Rational:
        if cls is numbers.Rational:
            return vals.is_integral(t)
        return vals.is_real(t)
    if cls is str:
        return V.is_VStr(t)
    if cls is bytes:
        return V.is_VBytes(t)
    if cls in (bytearray, memoryview, complex, frozenset):
        E.assumptions.add('closed world: no %s values' % cls.__name__)
        return z3.BoolVal(False)
    if cls is list:
        return V.is_VList(t)
    if cls is tuple:
        return V.is_VTuple(t)
    if cls is dict:
        return V.is_VDict(t)
    if cls is set:
        return V.is_VSet(t)
    if cls is type(None):
        return V.is_VNone(t)
    if cls is type:
        return V.is_VClass(t)
    if cls is object:
        return z3.BoolVal(True)
    if cls is datetime.datetime or cls is datetime.date:
        return V.is_VDatetime(t)
    import collections
    if cls is collections.OrderedDict:
        return V.is_VDict(t)
    if isinstance(cls, type):
        hook = E.attr_overrides.get(('isinstance', cls))
        if hook:
            return hook(E, t)
        if cls.__module__ in ('builtins', 'datetime', 'collections', 'numbers'):
            raise _I().Unsupported('isinstance against %r' % (cls,))
        E.classes.cid(cls)
        for k in all_subclasses(cls):
            E.classes.cid(k)
        return z3.And(V.is_VObj(t), E.classes.is_instance(V.oid(t), cls))
    raise _I().Unsupported('isinstance against %r' % (cls,))


def all_subclasses(cls):
    out = []
    for k in cls.__subclasses__():
        out.append(k)
        out.extend(all_subclasses(k))
    return out


def isinstance_cond(E, obj, clsarg, node=None):
    I = _I()
    if isinstance(clsarg, I.STuple):
        classes = []
        for x in clsarg.items:
            if isinstance(x, I.C) and isinstance(x.v, tuple):
                classes.extend(x.v)
            elif isinstance(x, I.C):
                classes.append(x.v)
            else:
                raise I.Unsupported('isinstance with symbolic class')
    elif isinstance(clsarg, I.C) and isinstance(clsarg.v, tuple):
        classes = list(clsarg.v)
    elif isinstance(clsarg, I.C):
        classes = [clsarg.v]
    elif isinstance(clsarg, I.T):
        hook = getattr(E, 'isinstance_symbolic', None)
        if hook is None:
            raise I.Unsupported('isinstance with symbolic class')
        return hook(obj, clsarg)
    else:
        raise I.Unsupported('isinstance class arg %r' % (clsarg,))
    flat = []
    for k in classes:
        if isinstance(k, tuple):
            flat.extend(k)
        else:
            flat.append(k)
    if isinstance(obj, I.C):
        return isinstance(obj.v, tuple(flat))
    if isinstance(obj, I.SExc):
        return any(issubclass(obj.cls, k) for k in flat)
    if isinstance(obj, I.STuple):
        return any(k in (tuple, object) for k in flat)
    if isinstance(obj, I.SList):
        return any(k in (list, object) for k in flat)
    if isinstance(obj, I.SDict):
        import collections
        return any(k in (dict, object, collections.OrderedDict) for k in flat)
    if isinstance(obj, (I.SBound, I.SClosure, I.SBuiltinMethod)):
        return any(k is object for k in flat)
    t = obj.t
    conds = [kind_cond(E, t, k) for k in flat]
    return z3.simplify(z3.Or(*conds)) if len(conds) > 1 else z3.simplify(conds[0])


# ----------------------------------------------------------------------------
# class candidates of a symbolic object


def class_candidates(E, oid):
    """Known python classes the object ``oid`` may be an instance of on this
    path, plus True if it may be of a symbolic (generated) class."""
    p = E.path
    key = ('cands', vals.tid(oid))
    if key in p.ghost:
        return p.ghost[key]
    c = E.classes.cls_of(oid)
    out = []
    sym = False
    s = p.solver
    s.push()
    try:
        n_known = len(E.classes.by_id)
        for _ in range(300):
            r = s.check()
            if r != z3.sat:
                if r == z3.unknown:
                    raise _I().Unsupported('class candidates: solver unknown')
                break
            m = s.model()
            k = m.eval(c, model_completion=True).as_long()
            if k in E.classes.by_id:
                out.append(E.classes.by_id[k])
                s.add(c != k)
            elif k > _I().SYM_CLASS_BASE:
                sym = True
                s.add(c <= _I().SYM_CLASS_BASE)
            else:
                # closed world: every object is an instance of a registered class
                # of the tree or of a symbolic (generated) class
                E.assumptions.add('closed world: objects are instances of the classes of the '
                                  'verified modules or of generated classes')
                s.add(z3.Or(z3.And(c >= 1, c <= n_known), c > _I().SYM_CLASS_BASE))
    finally:
        s.pop()
    p.ghost[key] = (out, sym)
    return out, sym


def class_candidates_for(E, oid, name):
    """Like class_candidates, but classes that resolve ``name`` identically
    are tested for feasibility together (one query per group)."""
    p = E.path
    key = ('cands', vals.tid(oid))
    if key in p.ghost:
        return p.ghost[key]
    gkey = ('candsg', vals.tid(oid), name)
    if gkey in p.ghost:
        return p.ghost[gkey]
    c = E.classes.cls_of(oid)
    known = [K for K in (getattr(E, 'class_snapshot', None) or E.classes.known()) if isinstance(K, type)]
    groups = {}
    for K in known:
        st = static_lookup(K, name)
        k = id(st) if st is not _MISSING else 0
        if st is not _MISSING and isinstance(st, (int, float, str, bool, type(None), tuple)):
            k = ('const', repr(st))
        groups.setdefault(k, []).append(K)
    out = []
    for k, ks in groups.items():
        cond = z3.Or(*[c == E.classes.cid(K) for K in ks])
        if E.must(z3.Not(cond)):
            continue
        if len(ks) > 1:
            # which members are possible does not matter for resolution; keep those
            # that are individually feasible only when the group is small
            if len(ks) <= 6:
                ks = [K for K in ks if not E.must(c != E.classes.cid(K))]
        out.extend(ks)
    # closed world of this module family: the object's class is one of the snapshot or generated
    E.axiom(z3.Or(*([c == E.classes.cid(K) for K in known] + [c > _I().SYM_CLASS_BASE])))
    sym = not E.must(c <= _I().SYM_CLASS_BASE)
    if not sym or True:
        n_known = len(E.classes.by_id)
        E.assumptions.add('closed world: objects are instances of the classes of the '
                          'verified modules or of generated classes')
    p.ghost[gkey] = (out, sym)
    return out, sym


def static_lookup(cls, name):
    return inspect.getattr_static(cls, name, _MISSING)


# ----------------------------------------------------------------------------
# attribute access

STR_METHODS = {'isascii', 'startswith', 'endswith', 'encode', 'split', 'join', 'format', 'strip', 'lower',
               'upper', 'replace', 'lstrip', 'rstrip', 'splitlines', 'isdigit', 'find', 'count',
               'title', 'capitalize', 'rsplit', 'partition', 'isupper', 'islower'}
BYTES_METHODS = {'decode'}
DICT_METHODS = {'items', 'keys', 'values', 'get', 'update', 'pop', 'setdefault', 'copy'}
LIST_METHODS = {'append', 'extend', 'insert', 'sort', 'index', 'reverse', 'remove'}
SET_METHODS = {'union', 'add', 'intersection', 'difference', 'issubset'}


def getattr_(E, obj, name, node=None):
    I = _I()
    if isinstance(obj, I.C):
        v = obj.v
        hook = E.attr_overrides.get(('getattr', type(v), name))
        if hook:
            return hook(E, obj)
        try:
            r = getattr(v, name)
        except AttributeError:
            E.raise_(AttributeError, name)
        if isinstance(v, (str, bytes, list, tuple, dict, set, frozenset)) and callable(r):
            return I.SBuiltinMethod(obj, name)
        return C_wrap(E, r)
    if isinstance(obj, I.SFile):
        return I.SBuiltinMethod(obj, name)
    if isinstance(obj, I.SExc):
        if name == 'args':
            return I.STuple(obj.args)
        if name in obj.attrs:
            return obj.attrs[name]
        st = static_lookup(obj.cls, name)
        if isinstance(st, types.FunctionType):
            # methods of in-flight exception objects only mutate the exception
            # (messages / parent paths): ignored, see DESIGN 2.1
            return I.C(_noop)
        if name in ('message', 'msg') and obj.args:
            return obj.args[0]
        if name in ('lineno', 'path') :
            return I.T(E.path.fresh('exc_' + name))
        E.raise_(AttributeError, name)
    if isinstance(obj, I.SSuper):
        return super_lookup(E, obj, name, node)
    if isinstance(obj, (I.STuple, I.SList, I.SDict)):
        return I.SBuiltinMethod(obj, name)
    if isinstance(obj, I.SBound):
        if name == '__func__':
            return I.C(obj.func)
        raise I.Unsupported('attribute %s of bound method' % name)
    if not isinstance(obj, I.T):
        raise I.Unsupported('getattr on %r' % (obj,))
    t = obj.t
    V = Val
    hook = getattr(E, 'getattr_symbolic', None)
    if hook is not None:
        r = hook(obj, name, node)
        if r is not None:
            return r
    if name in ('utcoffset', 'total_seconds', 'match', 'groups', 'search', 'strftime'):
        E.assumptions.add('closed world: tzinfo/timedelta/compiled-pattern objects are the stdlib ones '
                          '(methods utcoffset/total_seconds/match exist and do not raise)')
        return I.SBuiltinMethod(obj, name)
    # which kinds can it be?
    if name in STR_METHODS | BYTES_METHODS | DICT_METHODS | LIST_METHODS | SET_METHODS:
        isobj = z3.simplify(V.is_VObj(t))
        if not E.must(isobj):
            need = []
            if name in STR_METHODS:
                need.append(V.is_VStr(t))
            if name in BYTES_METHODS:
                need.append(V.is_VBytes(t))
                if name == 'decode':
                    pass
            if name in DICT_METHODS:
                need.append(V.is_VDict(t))
            if name in LIST_METHODS:
                need.append(V.is_VList(t))
            if name in SET_METHODS:
                need.append(V.is_VSet(t))
            if name == 'encode':
                pass
            if name in ('index', 'count'):
                need.append(V.is_VTuple(t))
            okc = z3.Or(*need)
            # objects may define anything: treated below only when it must be an object
            maybe_obj = (not E.must(z3.Not(isobj))) if not E.merge else False
            if not maybe_obj:
                E.fail_if(z3.Not(okc), AttributeError, name)
                return I.SBuiltinMethod(obj, name)
            if E.path.branch(isobj, 'isobj'):
                return object_getattr(E, obj, name, node)
            E.fail_if(z3.Not(okc), AttributeError, name)
            return I.SBuiltinMethod(obj, name)
    isobj = z3.simplify(V.is_VObj(t))
    iscls = z3.simplify(V.is_VClass(t))
    if E.must(isobj):
        return object_getattr(E, obj, name, node)
    if E.must(iscls):
        return class_getattr(E, obj, name, node)
    if E.must(V.is_VDatetime(t)):
        return datetime_getattr(E, obj, name, node)
    if E.merge:
        # specification mode: the attribute exists only on objects
        with E.assuming(isobj):
            r = object_getattr(E, obj, name, node)
        if E.fail_conds is not None:
            E.fail_conds.append((z3.And(*(E.scopes + [z3.Not(z3.Or(isobj, iscls, V.is_VDatetime(t)))])), AttributeError, name))
        if isinstance(r, (I.T, I.C)):
            return E.ite(isobj, r, I.T(V.VAbsent))
        raise _I().Unsupported('attribute %s of a value of undetermined kind in a specification' % name)
    # unknown kind: fork on object / class / datetime / other
    k = E.path.choose([isobj, iscls, V.is_VDatetime(t),
                       z3.Not(z3.Or(isobj, iscls, V.is_VDatetime(t)))],
                      ['obj', 'cls', 'datetime', 'other'])
    if k == 0:
        return object_getattr(E, obj, name, node)
    if k == 1:
        return class_getattr(E, obj, name, node)
    if k == 2:
        return datetime_getattr(E, obj, name, node)
    # other kinds: only dunder-free data values -> no such attribute
    if name in ('__class__',):
        return type_of(E, obj)
    E.raise_(AttributeError, name)


def _noop(*a, **k):
    return None


def C_wrap(E, r):
    return _I().C(r)


def datetime_getattr(E, obj, name, node):
    I = _I()
    if name == 'tzinfo':
        f = z3.Function('dt_tzinfo', z3.IntSort(), vals.VS)
        return I.T(f(Val.dtid(obj.t)))
    if name in ('strftime', 'replace', 'utcoffset', 'isoformat'):
        return I.SBuiltinMethod(obj, name)
    raise I.Unsupported('datetime attribute %s' % name)


def super_lookup(E, sup, name, node):
    I = _I()
    recv = sup.recv
    cands = receiver_classes(E, recv, name)
    found = set()
    res = None
    for K in cands:
        if not issubclass(K, sup.defcls):
            continue
        mro = K.__mro__
        i = mro.index(sup.defcls)
        for B in mro[i + 1:]:
            if name in B.__dict__:
                found.add((B, id(B.__dict__[name])))
                res = (B, B.__dict__[name])
                break
        else:
            E.raise_(AttributeError, name)
    if len(found) != 1:
        raise I.Unsupported('super().%s resolves differently across subclasses' % name)
    B, attr = res
    if isinstance(attr, types.FunctionType):
        return I.SBound(attr, recv, B)
    if B is object or type(attr).__name__ in ('wrapper_descriptor', 'method_descriptor'):
        if name == '__init__':
            return I.C(_noop)
    raise I.Unsupported('super().%s -> %r' % (name, attr))


def receiver_classes(E, recv, name='__init__'):
    I = _I()
    if isinstance(recv, I.C):
        return [type(recv.v)]
    if isinstance(recv, I.T):
        t = recv.t
        cands, sym = class_candidates_for(E, z3.simplify(Val.oid(t)), name)
        if sym:
            hook = getattr(E, 'symbolic_class_bases', None)
            if hook:
                cands = cands + hook(recv)
            else:
                raise I.Unsupported('receiver of a symbolic class')
        return cands
    raise I.Unsupported('receiver %r' % (recv,))


def object_getattr(E, obj, name, node):
    """Attribute of an instance (VObj) of classes of the tree."""
    I = _I()
    t = obj.t
    oid = z3.simplify(Val.oid(t))
    if name == '__class__':
        return type_of(E, obj)
    cands, sym = class_candidates_for(E, oid, name)
    if E.merge and (sym and cands or len(cands) > 1):
        r = merged_object_getattr(E, obj, name, node, cands, sym)
        if r is not None:
            return r
    if sym:
        hook = getattr(E, 'symbolic_object_getattr', None)
        if hook is None:
            raise I.Unsupported('attribute %s of instance of a symbolic class' % name)
        r = hook(obj, name, node, cands)
        if r is not None:
            return r
    if not cands:
        if E.merge:
            # specification mode: no class of the tree fits under the current scope
            # (the scope itself is then infeasible or the object is of a generated
            # class without this attribute): the read fails
            if E.fail_conds is not None:
                E.fail_conds.append((z3.And(*E.scopes) if E.scopes else z3.BoolVal(True), AttributeError, name))
            return I.T(Val.VAbsent)
        raise I.PathAbort()
    groups = {}
    for K in cands:
        st = static_lookup(K, name)
        key = id(st) if st is not _MISSING else 0
        if st is not _MISSING and isinstance(st, (int, float, str, bool, type(None), tuple)):
            key = ('const', repr(st))
        groups.setdefault(key, (st, []))[1].append(K)
    if len(groups) > 1:
        # dynamic dispatch to several overrides: use the contract of the
        # (virtual) base method when one is registered
        for (owner, mname), basefn in getattr(E, 'virtual', {}).items():
            if mname == name and all(issubclass(K, owner) for K in cands):
                return I.SBound(basefn, obj, owner if isinstance(owner, type) else None)
    if len(groups) > 1 and E.merge:
        # merge mode: class-dependent constants become an ite over the class id
        c = E.classes.cls_of(oid)
        res = None
        for key, (st, ks) in groups.items():
            r = resolve_static(E, obj, name, st, ks, node)
            cond = z3.Or(*[c == E.classes.cid(K) for K in ks])
            res = r if res is None else E.ite(cond, r, res)
        return res
    if len(groups) > 1:
        keys = list(groups)
        c = E.classes.cls_of(oid)
        conds = [z3.Or(*[c == E.classes.cid(K) for K in groups[k][1]]) for k in keys]
        i = E.path.choose(conds, ['cls:' + ','.join(K.__name__ for K in groups[k][1]) for k in keys])
        st, ks = groups[keys[i]]
    else:
        st, ks = list(groups.values())[0]
    return resolve_static(E, obj, name, st, ks, node)


def merged_object_getattr(E, obj, name, node, cands, sym):
    """Specification mode: the attribute as an ite over the possible classes
    of the object (failures are recorded guarded by the class condition)."""
    I = _I()
    oid = z3.simplify(Val.oid(obj.t))
    c = E.classes.cls_of(oid)
    groups = {}
    for K in cands:
        st = static_lookup(K, name)
        key = id(st) if st is not _MISSING else 0
        if st is not _MISSING and isinstance(st, (int, float, str, bool, type(None), tuple)):
            key = ('const', repr(st))
        groups.setdefault(key, (st, []))[1].append(K)
    alts = []
    for key, (st, ks) in groups.items():
        cond = z3.Or(*[c == E.classes.cid(K) for K in ks])
        with E.assuming(cond):
            try:
                v = resolve_static(E, obj, name, st, ks, node)
            except I.PyRaise as pr:
                if E.fail_conds is not None:
                    E.fail_conds.append((z3.And(*(E.scopes)), pr.exc.cls, name))
                v = None
        alts.append((cond, v))
    if sym:
        cond = c > I.SYM_CLASS_BASE
        hook = getattr(E, 'symbolic_object_getattr', None)
        with E.assuming(cond):
            try:
                v = hook(obj, name, node, []) if hook is not None else None
            except I.PyRaise as pr:
                if E.fail_conds is not None:
                    E.fail_conds.append((z3.And(*(E.scopes)), pr.exc.cls, name))
                v = None
            except I.Unsupported:
                # the attribute of an instance of an unknown generated class is not
                # determined: the specification is silent there (guarded failure)
                if E.fail_conds is not None:
                    E.fail_conds.append((z3.And(*(E.scopes)), AttributeError, name))
                v = None
        alts.append((cond, v))
    res = None
    for cond, v in alts:
        if v is None:
            continue
        if not isinstance(v, (I.T, I.C)):
            return None
        res = v if res is None else E.ite(cond, v, res)
    if res is None:
        return I.T(Val.VAbsent)
    return res


def resolve_static(E, obj, name, st, ks, node):
    I = _I()
    oid = z3.simplify(Val.oid(obj.t))
    if st is _MISSING or type(st).__name__ == 'member_descriptor':
        r = z3.Select(E.path.heap_arr(name), oid)
        E.fail_if(r == Val.VAbsent, AttributeError, name)
        return I.T(r)
    if isinstance(st, types.FunctionType):
        return I.SBound(st, obj, None)
    if isinstance(st, property):
        return E.call_function(st.fget, [obj], {})
    if isinstance(st, classmethod):
        return I.SBound(st.__func__, type_of(E, obj), None)
    if isinstance(st, staticmethod):
        return I.C(st.__func__)
    hook = E.attr_overrides.get(('descriptor', type(st)))
    if hook is not None:
        return hook(E, obj, name, st)
    if hasattr(type(st), '__get__') and not isinstance(st, type):
        raise I.Unsupported('descriptor %r for attribute %s' % (type(st), name))
    return I.C(st)


def type_of(E, obj):
    I = _I()
    if isinstance(obj, I.C):
        return I.C(type(obj.v))
    if isinstance(obj, I.STuple):
        return I.C(tuple)
    if isinstance(obj, I.SList):
        return I.C(list)
    if isinstance(obj, I.SDict):
        return I.C(dict)
    if isinstance(obj, I.SExc):
        return I.C(obj.cls)
    t = obj.t
    V = Val
    import datetime
    table = [(V.is_VNone, type(None)), (V.is_VBool, bool), (V.is_VInt, int), (V.is_VFloat, float),
             (V.is_VStr, str), (V.is_VBytes, bytes), (V.is_VList, list), (V.is_VTuple, tuple),
             (V.is_VDict, dict), (V.is_VSet, set), (V.is_VDatetime, datetime.datetime), (V.is_VClass, type)]
    isobj = z3.simplify(V.is_VObj(t))
    if z3.is_true(isobj) or E.must(isobj):
        oid = z3.simplify(V.oid(t))
        c = z3.simplify(E.classes.cls_of(oid))
        return I.T(V.VClass(c))
    res = V.VClass(z3.If(isobj, E.classes.cls_of(V.oid(t)), z3.IntVal(0)))
    for rec, k in reversed(table):
        res = z3.If(rec(t), V.VClass(z3.IntVal(E.classes.cid(k))), res)
    res = z3.simplify(res)
    if z3.is_app(res) and res.decl().name() == 'VClass' and z3.is_int_value(res.arg(0)):
        k = res.arg(0).as_long()
        if k in E.classes.by_id:
            return I.C(E.classes.by_id[k])
    return I.T(res)


def class_getattr(E, obj, name, node):
    I = _I()
    t = z3.simplify(obj.t)
    if z3.is_app(t) and t.decl().name() == 'VClass' and z3.is_int_value(t.arg(0)):
        k = t.arg(0).as_long()
        if k in E.classes.by_id:
            return getattr_(E, I.C(E.classes.by_id[k]), name, node)
    if name in ('__name__', '__module__', '__qualname__'):
        f = z3.Function('Class' + name, z3.IntSort(), vals.STR)
        return I.T(Val.VStr(f(Val.cid(t))))
    hook = getattr(E, 'symbolic_class_getattr', None)
    if hook is None:
        raise I.Unsupported('attribute %s of a symbolic class' % name)
    return hook(obj, name, node)


def setattr_(E, obj, name, v, node=None):
    I = _I()
    if isinstance(obj, I.T):
        hook = getattr(E, 'setattr_symbolic', None)
        if hook is not None and hook(obj, name, v, node):
            return
        t = obj.t
        E.fail_if(z3.Not(Val.is_VObj(t)), AttributeError, 'setattr on non-object')
        oid = z3.simplify(Val.oid(t))
        cands, sym = class_candidates_for(E, oid, name)
        for K in cands:
            st = static_lookup(K, name)
            if st is not _MISSING and type(st).__name__ != 'member_descriptor':
                if hasattr(type(st), '__set__'):
                    hook = E.attr_overrides.get(('descriptor_set', type(st)))
                    if hook:
                        return hook(E, obj, name, st, v)
                    raise I.Unsupported('assignment through descriptor %s' % name)
            if st is _MISSING and E.instance_slots(K) and '__dict__' not in dir(K):
                # class with __slots__ and no __dict__: unknown attribute
                if not hasattr(K, '__dict__'):
                    E.raise_(AttributeError, name)
        arr = E.path.heap_arr(name)
        E.path.heap[name] = z3.Store(arr, oid, E.lift(v))
        return
    if isinstance(obj, I.SExc):
        obj.attrs[name] = v
        return
    raise I.Unsupported('setattr on %r' % (obj,))


def delattr_(E, obj, name, node=None):
    I = _I()
    if isinstance(obj, I.T):
        hook = getattr(E, 'delattr_symbolic', None)
        if hook is not None and hook(obj, name, node):
            return
    raise I.Unsupported('del attribute on %r' % (obj,))


# ----------------------------------------------------------------------------
# subscripts


def seq_parts(t):
    V = Val
    isl, ist = V.is_VList(t), V.is_VTuple(t)
    return isl, ist, z3.If(isl, V.llen(t), V.tlen(t)), z3.If(isl, V.larr(t), V.tarr(t))


def getitem(E, obj, idx, node=None):
    I = _I()
    if isinstance(obj, I.C) and isinstance(idx, I.C):
        try:
            return C_wrap(E, obj.v[idx.v])
        except (KeyError, IndexError, TypeError) as e:
            E.raise_(type(e), 'getitem')
    if isinstance(obj, (I.STuple, I.SList)) and isinstance(idx, I.C):
        try:
            return obj.items[idx.v]
        except (IndexError, TypeError) as e:
            E.raise_(type(e), 'getitem')
    if isinstance(obj, I.SDict):
        if isinstance(idx, I.C):
            if idx.v in obj.d:
                return obj.d[idx.v]
            E.raise_(KeyError, 'key')
        # symbolic key into concrete-key dict
        keys = list(obj.d)
        if not keys:
            E.raise_(KeyError, 'key')
        conds = [E.equal(I.C(k), idx, node) for k in keys]
        conds = [c if not isinstance(c, bool) else z3.BoolVal(c) for c in conds]
        miss = z3.Not(z3.Or(*conds))
        k = E.path.choose(conds + [miss], ['key=%r' % (k,) for k in keys] + ['missing'])
        if k == len(keys):
            E.raise_(KeyError, 'key')
        return obj.d[keys[k]]
    if isinstance(obj, I.C) and isinstance(obj.v, dict) and isinstance(idx, I.T):
        keys = list(obj.v)
        if not keys:
            E.raise_(KeyError, 'key')
        conds = [E.equal(I.C(k), idx, node) for k in keys]
        conds = [c if not isinstance(c, bool) else z3.BoolVal(c) for c in conds]
        miss = z3.Not(z3.Or(*conds))
        k = E.path.choose(conds + [miss], ['key=%r' % (k,) for k in keys] + ['missing'])
        if k == len(keys):
            E.raise_(KeyError, 'key')
        return C_wrap(E, obj.v[keys[k]])
    t = E.lift(obj)
    V = Val
    hook = getattr(E, 'getitem_symbolic', None)
    if hook is not None:
        r = hook(obj, idx, node)
        if r is not None:
            return r
    isd = z3.simplify(V.is_VDict(t))
    isl, ist, ln, arr = seq_parts(t)
    isseq = z3.simplify(z3.Or(isl, ist))
    isstr = z3.simplify(V.is_VStr(t))
    if E.must(isd):
        k = 0
    elif E.must(isseq):
        k = 1
    elif E.must(isstr):
        k = 2
    elif E.merge:
        # specification mode, kind not determined: the generic reading
        kt = E.lift(idx)
        E.axiom(vals.key_axiom(kt))
        dv = z3.Select(V.dm(t), vals.KeyId(kt))
        i = vals.int_of(kt)
        sv = z3.Select(arr, z3.If(i < 0, i + ln, i))
        if E.fail_conds is not None:
            E.fail_conds.append((z3.And(*(E.scopes + [z3.Not(z3.Or(isd, isseq))])), TypeError, 'subscript'))
        return I.T(z3.If(isd, dv, sv))
    else:
        ok = z3.simplify(z3.Or(isd, isseq, isstr))
        E.fail_if(z3.Not(ok), TypeError, 'not subscriptable')
        k = E.path.choose([isd, isseq, isstr], ['dict', 'seq', 'str'])
    if k == 0:
        kt = E.lift(idx)
        E.axiom(vals.key_axiom(kt))
        if E.path is not None:
            E.path.key_lookup(t, kt)
        r = z3.Select(V.dm(t), vals.KeyId(kt))
        E.fail_if(r == V.VAbsent, KeyError, 'dict key')
        return I.T(r)
    if k == 1:
        it = E.lift(idx)
        E.fail_if(z3.Not(vals.is_integral(it)), TypeError, 'index kind')
        i = vals.int_of(it)
        E.fail_if(z3.Or(i >= ln, i < -ln), IndexError, 'index range')
        j = z3.If(i < 0, i + ln, i)
        return I.T(z3.Select(arr, j))
    it = E.lift(idx)
    E.fail_if(z3.Not(vals.is_integral(it)), TypeError, 'index kind')
    i = vals.int_of(it)
    n = E.strlen(V.s(t))
    E.fail_if(z3.Or(i >= n, i < -n), IndexError, 'index range')
    j = z3.If(i < 0, i + n, i)
    f = z3.Function('StrCharAt', vals.STR, z3.IntSort(), vals.STR)
    return I.T(V.VStr(f(V.s(t), j)))


def setitem(E, obj, idx, v, node=None):
    I = _I()
    if isinstance(obj, I.SDict):
        if isinstance(idx, I.C):
            obj.d[idx.v] = v
            return
        hook = getattr(E, 'sdict_symbolic_store', None)
        if hook is not None:
            return hook(obj, idx, v, node)
        raise I.Unsupported('store with symbolic key into a local dict')
    if isinstance(obj, I.SList) and isinstance(idx, I.C):
        try:
            obj.items[idx.v] = v
        except (IndexError, TypeError) as e:
            E.raise_(type(e), 'setitem')
        return
    hook = getattr(E, 'setitem_symbolic', None)
    if hook is not None and hook(obj, idx, v, node):
        return
    raise I.Unsupported('item assignment on %r' % (obj,))


def getslice(E, obj, lo, hi, st, node=None):
    I = _I()
    def conc(x):
        return x is None or isinstance(x, I.C)
    if isinstance(obj, I.C) and conc(lo) and conc(hi) and conc(st):
        return I.C(obj.v[(lo.v if lo else None):(hi.v if hi else None):(st.v if st else None)])
    if isinstance(obj, (I.STuple, I.SList)) and conc(lo) and conc(hi) and conc(st):
        items = obj.items[(lo.v if lo else None):(hi.v if hi else None):(st.v if st else None)]
        return type(obj)(items)
    if isinstance(obj, I.T) and st is None:
        t = obj.t
        V = Val
        if z3.is_true(z3.simplify(V.is_VStr(t))):
            s = V.s(t)
            n = E.strlen(s)
            def norm(x, dflt):
                if x is None:
                    return dflt
                i = vals.int_of(E.lift(x))
                i = z3.If(i < 0, z3.If(i + n < 0, 0, i + n), z3.If(i > n, n, i))
                return i
            a, b = norm(lo, z3.IntVal(0)), norm(hi, n)
            f = z3.Function('StrSlice', vals.STR, z3.IntSort(), z3.IntSort(), vals.STR)
            return I.T(V.VStr(f(s, a, b)))
    raise I.Unsupported('slice of %r' % (obj,))


def contains_symbolic(E, cont, item, node):
    I = _I()
    hook = getattr(E, 'contains_hook', None)
    if hook is not None:
        r = hook(cont, item, node)
        if r is not None:
            return r
    t = E.lift(cont)
    V = Val
    isd = z3.simplify(V.is_VDict(t))
    isset = z3.simplify(V.is_VSet(t))
    isl, ist, ln, arr = seq_parts(t)
    isseq = z3.simplify(z3.Or(isl, ist))
    isstr = z3.simplify(V.is_VStr(t))
    it = E.lift(item)
    if E.must(isd):
        E.axiom(vals.key_axiom(it))
        if E.path is not None:
            E.path.key_lookup(t, it)
        return z3.Select(V.dm(t), vals.KeyId(it)) != V.VAbsent
    if E.must(isset):
        E.axiom(vals.key_axiom(it))
        return z3.Select(V.sm(t), vals.KeyId(it))
    ok = z3.simplify(z3.Or(isd, isset, isseq, isstr))
    E.fail_if(z3.Not(ok), TypeError, 'argument of type is not iterable')
    if E.merge:
        E.axiom(vals.key_axiom(it))
        return z3.If(isd, z3.Select(V.dm(t), vals.KeyId(it)) != V.VAbsent,
                     z3.If(isset, z3.Select(V.sm(t), vals.KeyId(it)), z3.BoolVal(False)))
    k = E.path.choose([isd, isset, isseq, isstr], ['dict', 'set', 'seq', 'str'])
    if k == 0:
        E.axiom(vals.key_axiom(it))
        return z3.Select(V.dm(t), vals.KeyId(it)) != V.VAbsent
    if k == 1:
        E.axiom(vals.key_axiom(it))
        return z3.Select(V.sm(t), vals.KeyId(it))
    if k == 2:
        j = E.path.fresh('j', z3.IntSort())
        # membership in a symbolic sequence: existential
        i = z3.Int('mem_i')
        return E.path.quant(z3.Exists([i], z3.And(i >= 0, i < ln, z3.Select(arr, i) == it)))
    E.fail_if(z3.Not(V.is_VStr(it)), TypeError, 'in <str> requires str')
    f = z3.Function('StrContains', vals.STR, vals.STR, z3.BoolSort())
    return f(V.s(t), V.s(it))


# ----------------------------------------------------------------------------
# binary operators


def fmt_specs(fmt):
    """Conversion specifiers of a %-format string: list of (char, mapping_key)."""
    out = []
    i = 0
    n = len(fmt)
    while i < n:
        if fmt[i] != '%':
            i += 1
            continue
        i += 1
        if i >= n:
            raise ValueError('incomplete format')
        key = None
        if fmt[i] == '(':
            j = fmt.index(')', i)
            key = fmt[i + 1:j]
            i = j + 1
        while i < n and fmt[i] in '#0- +':
            i += 1
        star = 0
        if i < n and fmt[i] == '*':
            star += 1
            i += 1
        while i < n and fmt[i].isdigit():
            i += 1
        if i < n and fmt[i] == '.':
            i += 1
            if i < n and fmt[i] == '*':
                star += 1
                i += 1
            while i < n and fmt[i].isdigit():
                i += 1
        while i < n and fmt[i] in 'hlL':
            i += 1
        if i >= n:
            raise ValueError('incomplete format')
        ch = fmt[i]
        i += 1
        if ch == '%':
            continue
        for _ in range(star):
            out.append(('*', None))
        out.append((ch, key))
    return out


def percent_format(E, fmt, rhs, node):
    """``fmt % rhs`` with concrete format string: side conditions + opaque
    (but deterministic) result."""
    I = _I()
    try:
        specs = fmt_specs(fmt)
    except ValueError:
        E.raise_(ValueError, 'bad format')
    V = Val
    if any(k is not None for (_, k) in specs):
        raise I.Unsupported('%-format with mapping keys')
    # argument list
    if isinstance(rhs, I.STuple):
        args = rhs.items
    elif isinstance(rhs, I.C) and isinstance(rhs.v, tuple):
        args = [I.C(x) for x in rhs.v]
    elif isinstance(rhs, I.C) or isinstance(rhs, (I.SList, I.SDict)):
        args = [rhs]
    else:
        t = rhs.t
        ist = z3.simplify(V.is_VTuple(t))
        if z3.is_false(ist) or E.merge or E.must(z3.Not(ist)):
            args = [rhs]
        else:
            # a tuple on the right-hand side is the argument *list*
            if E.path.branch(ist, 'fmt-rhs-is-tuple'):
                n = V.tlen(t)
                E.fail_if(n != len(specs), TypeError, 'format arity (tuple argument)')
                args = [I.T(z3.Select(V.tarr(t), k)) for k in range(len(specs))]
            else:
                args = [rhs]
    if len(args) != len(specs):
        if len(specs) == 0 and len(args) == 1 and isinstance(args[0], (I.SDict,)):
            pass
        elif len(specs) == 0 and len(args) == 1 and isinstance(args[0], I.T) and \
                E.must(V.is_VDict(args[0].t)):
            pass
        else:
            E.raise_(TypeError, 'format arity')
    terms = []
    for (ch, _), a in zip(specs, args):
        if isinstance(a, I.C):
            try:
                ('%' + ch) % (a.v,)
            except (TypeError, ValueError) as e:
                E.raise_(type(e), 'format %' + ch)
            terms.append(E.lift(a))
            continue
        if isinstance(a, (I.STuple, I.SList, I.SDict, I.SExc)):
            if ch not in 'sra':
                E.raise_(TypeError, 'format %' + ch)
            terms.append(E.lift(a) if not isinstance(a, I.SExc) else V.VNone)
            continue
        if isinstance(a, (I.SBound, I.SClosure, I.SBuiltinMethod)):
            if ch not in 'sra':
                E.raise_(TypeError, 'format %' + ch)
            terms.append(V.VNone)
            continue
        t = a.t
        if ch in 'diouxXc*':
            if ch in 'di*u':
                # %d accepts any real number (floats are truncated); inf/nan raise
                ok = vals.is_real(t)
                E.fail_if(z3.Not(ok), TypeError, '%%%s requires a number' % ch)
                isf = V.is_VFloat(t)
                bad = z3.And(isf, z3.Or(z3.fpIsInf(V.f(t)), z3.fpIsNaN(V.f(t))))
                E.fail_if(bad, OverflowError if False else ValueError, '%%%s of inf/nan' % ch)
            else:
                E.fail_if(z3.Not(vals.is_integral(t)), TypeError, '%%%s requires an integer' % ch)
        elif ch in 'eEfFgG':
            E.fail_if(z3.Not(vals.is_real(t)), TypeError, '%%%s requires a real number' % ch)
            # int too large for float
            big = z3.And(vals.is_integral(t), z3.Or(vals.int_of(t) >= vals.F64_OVERFLOW,
                                                    vals.int_of(t) <= -vals.F64_OVERFLOW))
            E.fail_if(big, OverflowError, '%%%s of huge int' % ch)
        elif ch in 'sra':
            E.assumptions.add('str()/repr() of closed-world values does not raise')
        else:
            raise I.Unsupported('format conversion %' + ch)
        terms.append(t)
    return opaque_string(E, 'pfmt:' + fmt, terms)


def template_pieces(tag):
    """('pfmt:_%s_value' | 'sfmt:_{}_value') -> ('_', '_value'): literal pieces
    of a template whose fields are all plain %s / {}; None otherwise."""
    kind, fmt = tag.split(':', 1)
    if kind == 'pfmt':
        if re.search(r'%(?!s)', fmt.replace('%%', '')):
            return None
        return tuple(x.replace('%%', '%') for x in re.split(r'%s', fmt))
    if kind == 'sfmt':
        if re.search(r'\{[^}]+\}', fmt) or '{{' in fmt or '}}' in fmt:
            return None
        return tuple(fmt.split('{}'))
    return None


def opaque_string(E, tag, terms):
    """Deterministic opaque string: uninterpreted function of the arguments.
    Templates made of plain string fields are named after their literal
    pieces (so '_%s_value' % x and '_{}_value'.format(x) are the same term);
    a one-field template is injective on strings (left inverse axiom)."""
    I = _I()
    pieces = template_pieces(tag) if ':' in tag else None
    if pieces is not None and terms and len(pieces) == len(terms) + 1 and \
            (E.merge or all(E.must(Val.is_VStr(t)) for t in terms)):
        name = 'Tmpl_' + _h(repr(pieces))
        f = z3.Function(name, *([vals.STR] * len(terms) + [vals.STR]))
        r = f(*[Val.s(t) for t in terms])
        if len(terms) == 1:
            inv = z3.Function(name + '_inv', vals.STR, vals.STR)
            E.axiom(inv(r) == Val.s(terms[0]))
            E.path.ghost.setdefault('templates', {})[name] = pieces
        return I.T(Val.VStr(r))
    if not terms:
        return I.C(tag.split(':', 1)[1]) if tag.startswith('pfmt:') and '%' not in tag else \
            I.T(Val.VStr(z3.Const('Str_' + _h(tag), vals.STR)))
    f = z3.Function('Str_' + _h(tag), *([vals.VS] * len(terms) + [vals.STR]))
    return I.T(Val.VStr(f(*terms)))


def _h(s):
    import hashlib
    return hashlib.sha1(s.encode('utf-8')).hexdigest()[:10]


def binop(E, op, a, b, node):
    I = _I()
    V = Val
    # string formatting
    if isinstance(op, ast.Mod) and isinstance(a, I.C) and isinstance(a.v, str):
        return percent_format(E, a.v, b, node)
    if isinstance(op, ast.Add):
        # list / tuple concatenation with concrete shapes
        if isinstance(a, (I.SList,)) and isinstance(b, I.SList):
            return I.SList(a.items + b.items)
        if isinstance(a, I.STuple) and isinstance(b, I.STuple):
            return I.STuple(a.items + b.items)
        if isinstance(a, I.C) and isinstance(a.v, list) and isinstance(b, I.SList):
            return I.SList([I.C(x) for x in a.v] + b.items)
        if isinstance(a, I.SList) and isinstance(b, I.C) and isinstance(b.v, list):
            return I.SList(a.items + [I.C(x) for x in b.v])
    hook = getattr(E, 'binop_hook', None)
    if hook is not None:
        r = hook(op, a, b, node)
        if r is not None:
            return r
    ta, tb = E.lift(a), E.lift(b)
    if isinstance(op, ast.Mod):
        isstr = z3.simplify(V.is_VStr(ta))
        if not z3.is_false(isstr):
            if z3.is_true(isstr) or E.path.branch(isstr, 'mod-lhs-str'):
                raise I.Unsupported('%-format with symbolic format string')
    na, fa, ia, xa = E.numeric_parts(ta)
    nb, fb, ib, xb = E.numeric_parts(tb)
    both_num = z3.simplify(z3.And(na, nb))
    if isinstance(op, ast.Add):
        both_str = z3.simplify(z3.And(V.is_VStr(ta), V.is_VStr(tb)))
        both_list = z3.simplify(z3.And(V.is_VList(ta), V.is_VList(tb)))
        if E.must(both_str):
            return I.T(V.VStr(str_concat(E, V.s(ta), V.s(tb))))
        if E.must(both_list):
            return list_concat(E, ta, tb)
        ok = z3.simplify(z3.Or(both_num, both_str, both_list))
        E.fail_if(z3.Not(ok), TypeError, '+ on incompatible kinds')
        if not E.must(both_num):
            if E.merge:
                raise I.Unsupported('+ on operands of undetermined kind in a specification')
            k = E.path.choose([both_num, both_str, both_list], ['num', 'str', 'list'])
            if k == 1:
                return I.T(V.VStr(str_concat(E, V.s(ta), V.s(tb))))
            if k == 2:
                return list_concat(E, ta, tb)
    else:
        E.fail_if(z3.Not(both_num), TypeError, 'arithmetic on non-numbers')
    anyf = z3.simplify(z3.Or(fa, fb))
    if isinstance(op, (ast.Add, ast.Sub, ast.Mult)):
        iop = {ast.Add: lambda x, y: x + y, ast.Sub: lambda x, y: x - y, ast.Mult: lambda x, y: x * y}[type(op)]
        fop = {ast.Add: z3.fpAdd, ast.Sub: z3.fpSub, ast.Mult: z3.fpMul}[type(op)]
        if z3.is_false(anyf):
            return I.T(V.VInt(iop(ia, ib)))
        xa2 = z3.If(fa, xa, E.to_fp_exact(ia))
        xb2 = z3.If(fb, xb, E.to_fp_exact(ib))
        # int -> float conversion overflow
        E.fail_if(z3.And(anyf, z3.Or(z3.And(z3.Not(fa), z3.fpIsInf(E.to_fp_exact(ia))),
                                      z3.And(z3.Not(fb), z3.fpIsInf(E.to_fp_exact(ib))))),
                  OverflowError, 'int too large to convert to float')
        return I.T(z3.If(anyf, V.VFloat(fop(vals.RNE, xa2, xb2)), V.VInt(iop(ia, ib))))
    if isinstance(op, (ast.FloorDiv, ast.Mod)) and z3.is_false(anyf):
        E.fail_if(ib == 0, ZeroDivisionError, 'division by zero')
        # python floor division: for a positive divisor z3's div is floor;
        # for a negative one floor(a/b) = (-a) div (-b)
        fl = z3.If(ib > 0, ia / ib, (-ia) / (-ib))
        if isinstance(op, ast.FloorDiv):
            return I.T(V.VInt(fl))
        return I.T(V.VInt(ia - ib * fl))
    raise I.Unsupported('binary operator %s on symbolic operands' % type(op).__name__)


def str_concat(E, a, b):
    """String concatenation: the string theory when the engine runs in
    ``string_theory`` mode, otherwise an uninterpreted (deterministic) function
    -- enough wherever only equality of built strings matters."""
    a, b = z3.simplify(a), z3.simplify(b)
    if vals.is_strlit(a) and vals.is_strlit(b):
        return vals.strlit(vals.strlit_text(a) + vals.strlit_text(b))
    f = z3.Function('StrCat', vals.STR, vals.STR, vals.STR)
    return f(a, b)


def dict_store(E, d, key, v):
    """functional ``d[key] = v`` on a symbolic dict term"""
    I = _I()
    V = Val
    t = d.t
    E.fail_if(z3.Not(V.is_VDict(t)), TypeError, 'item assignment on a non-dict')
    kt = E.lift(key)
    vt = E.lift(v)
    E.axiom(vals.key_axiom(kt))
    kid = vals.KeyId(kt)
    present = z3.Select(V.dm(t), kid) != V.VAbsent
    n = V.dn(t)
    return I.T(V.VDict(z3.If(present, n, n + 1),
                       z3.If(present, V.dk(t), z3.Store(V.dk(t), n, kt)),
                       z3.Store(V.dm(t), kid, vt)))


def dict_update(E, a, b):
    """functional ``a.update(b)``: uninterpreted, with the lookup law
    instantiated on demand (see dict_lookup_axioms)"""
    I = _I()
    f = z3.Function('DictUpdate', vals.VS, vals.VS, vals.VS)
    r = f(a.t, b.t)
    E.axiom(Val.is_VDict(r))
    E.path.ghost.setdefault('dictupdates', []).append((r, a.t, b.t))
    return I.T(r)


def list_concat(E, ta, tb):
    I = _I()
    V = Val
    i = z3.Int('cat_i')
    n1, n2 = V.llen(ta), V.llen(tb)
    arr = z3.Lambda([i], z3.If(z3.And(i >= 0, i < n1), z3.Select(V.larr(ta), i),
                               z3.If(z3.And(i >= n1, i < n1 + n2), z3.Select(V.larr(tb), i - n1), V.VAbsent)))
    return I.T(V.VList(n1 + n2, arr))


# ----------------------------------------------------------------------------
# builtin functions


def install(E):
    I = _I()
    M = E.models

    def m_isinstance(E, args, kw):
        r = isinstance_cond(E, args[0], args[1])
        return E.bool_sv(r)
    M[isinstance] = m_isinstance

    def m_issubclass(E, args, kw):
        a, b = args
        if isinstance(a, I.C) and isinstance(b, I.C):
            return I.C(issubclass(a.v, b.v))
        hook = getattr(E, 'issubclass_symbolic', None)
        if hook is None:
            raise I.Unsupported('issubclass with symbolic class')
        return E.bool_sv(hook(a, b))
    M[issubclass] = m_issubclass

    def m_len(E, args, kw):
        (x,) = args
        if isinstance(x, I.C):
            try:
                return I.C(len(x.v))
            except TypeError:
                E.raise_(TypeError, 'len')
        if isinstance(x, (I.STuple, I.SList, I.SIter)):
            return I.C(len(x.items))
        if isinstance(x, I.SDict):
            return I.C(len(x.d))
        t = x.t
        V = Val
        for rec, f in ((V.is_VStr, lambda: E.strlen(V.s(t))), (V.is_VBytes, lambda: E.strlen(V.bs(t))),
                       (V.is_VList, lambda: V.llen(t)), (V.is_VTuple, lambda: V.tlen(t)),
                       (V.is_VDict, lambda: V.dn(t)), (V.is_VSet, lambda: V.sn(t))):
            if E.must(rec(t)):
                n = f()
                E.axiom(z3.Implies(rec(t), n >= 0))
                return I.T(V.VInt(n))
        ok = z3.Or(V.is_VStr(t), V.is_VBytes(t), V.is_VList(t), V.is_VTuple(t), V.is_VDict(t), V.is_VSet(t))
        E.fail_if(z3.Not(ok), TypeError, 'object has no len()')
        n = z3.If(V.is_VStr(t), E.strlen(V.s(t)),
            z3.If(V.is_VBytes(t), E.strlen(V.bs(t)),
            z3.If(V.is_VList(t), V.llen(t),
            z3.If(V.is_VTuple(t), V.tlen(t),
            z3.If(V.is_VDict(t), V.dn(t), V.sn(t))))))
        E.axiom(z3.Implies(ok, n >= 0))
        return I.T(V.VInt(z3.simplify(n)))
    M[len] = m_len

    def m_type(E, args, kw):
        if len(args) != 1:
            raise I.Unsupported('type() with 3 arguments')
        return type_of(E, args[0])
    M[type] = m_type

    def m_hasattr(E, args, kw):
        obj, name = args
        name = const_name(name)
        if not isinstance(name, I.C) and not E.merge:
            hook = getattr(E, 'hasattr_symbolic', None)
            if hook is None:
                raise I.Unsupported('hasattr with symbolic name')
            return hook(obj, name)
        if isinstance(obj, I.C) and isinstance(name, I.C):
            return I.C(hasattr(obj.v, name.v))
        if E.merge:
            # specification mode: the condition under which the read succeeds
            old = E.fail_conds
            mine = []
            E.fail_conds = mine
            try:
                try:
                    if isinstance(name, I.C):
                        getattr_(E, obj, name.v)
                    else:
                        E.getattr_symbolic_name(obj, name, None)
                except I.PyRaise as pr:
                    if issubclass(pr.exc.cls, AttributeError):
                        return I.C(False)
                    raise
            finally:
                E.fail_conds = old
            conds = [c for (c, k, _) in mine if issubclass(k, AttributeError)]
            if not conds:
                return I.C(True)
            return E.bool_sv(z3.Not(z3.Or(*conds)))
        # run getattr and observe AttributeError
        try:
            getattr_(E, obj, name.v)
            return I.C(True)
        except I.PyRaise as pr:
            if issubclass(pr.exc.cls, AttributeError):
                return I.C(False)
            raise
    M[hasattr] = m_hasattr

    def const_name(sv):
        """a symbolic name that is in fact a literal string -> concrete"""
        if isinstance(sv, I.T):
            t = z3.simplify(sv.t)
            if z3.is_app(t) and t.decl().name() == 'VStr' and vals.is_strlit(t.arg(0)):
                return I.C(vals.strlit_text(t.arg(0)))
        return sv

    def m_getattr(E, args, kw):
        args = [args[0], const_name(args[1])] + list(args[2:])
        obj, name = args[0], args[1]
        if not isinstance(name, I.C):
            hook = getattr(E, 'getattr_symbolic_name', None)
            if hook is None:
                raise I.Unsupported('getattr with symbolic name')
            return hook(obj, name, args[2] if len(args) > 2 else None)
        if len(args) == 2:
            return getattr_(E, obj, name.v)
        try:
            return getattr_(E, obj, name.v)
        except I.PyRaise as pr:
            if issubclass(pr.exc.cls, AttributeError):
                return args[2]
            raise
    M[getattr] = m_getattr

    def m_setattr(E, args, kw):
        obj, name, v = args
        name = const_name(name)
        if not isinstance(name, I.C):
            hook = getattr(E, 'setattr_symbolic_name', None)
            if hook is None:
                raise I.Unsupported('setattr with symbolic name')
            return hook(obj, name, v)
        setattr_(E, obj, name.v, v)
        return I.C(None)
    M[setattr] = m_setattr

    def m_float(E, args, kw):
        (x,) = args
        if isinstance(x, I.C):
            try:
                return I.C(float(x.v))
            except (TypeError, ValueError, OverflowError) as e:
                E.raise_(type(e), 'float()')
        if not isinstance(x, I.T):
            E.raise_(TypeError, 'float() argument')
        t = x.t
        V = Val
        isnum = vals.is_real(t)
        isstr = V.is_VStr(t)
        E.fail_if(z3.Not(z3.Or(isnum, isstr)), TypeError, 'float() argument must be a string or a number')
        if not E.must(z3.Not(isstr)):
            if E.merge:
                raise I.Unsupported('float() of a value of undetermined kind in a specification')
            if E.path.branch(isstr, 'float(str)'):
                f = z3.Function('StrToFloatOk', vals.STR, z3.BoolSort())
                g = z3.Function('StrToFloat', vals.STR, vals.FP)
                E.fail_if(z3.Not(f(V.s(t))), ValueError, 'could not convert string to float')
                return I.T(V.VFloat(g(V.s(t))))
        isf = V.is_VFloat(t)
        i = vals.int_of(t)
        conv = E.to_fp_exact(i)
        E.fail_if(z3.And(z3.Not(isf), z3.fpIsInf(conv)), OverflowError, 'int too large to convert to float')
        return I.T(V.VFloat(z3.If(isf, V.f(t), conv)))
    M[float] = m_float

    def m_int(E, args, kw):
        if len(args) != 1:
            raise I.Unsupported('int() with base')
        (x,) = args
        if isinstance(x, I.C):
            try:
                return I.C(int(x.v))
            except (TypeError, ValueError, OverflowError) as e:
                E.raise_(type(e), 'int()')
        t = x.t
        V = Val
        isint = vals.is_integral(t)
        if E.must(isint):
            return I.T(V.VInt(vals.int_of(t)))
        raise I.Unsupported('int() of non-integral symbolic value')
    M[int] = m_int

    def m_bool(E, args, kw):
        if not args:
            return I.C(False)
        return E.bool_sv(E.truth(args[0]))
    M[bool] = m_bool

    def m_str(E, args, kw):
        if not args:
            return I.C('')
        (x,) = args
        if isinstance(x, I.C):
            return I.C(str(x.v))
        if isinstance(x, I.T):
            t = x.t
            E.assumptions.add('str()/repr() of closed-world values does not raise')
            f = z3.Function('PyStr', vals.VS, vals.STR)
            return I.T(Val.VStr(z3.If(Val.is_VStr(t), Val.s(t), f(t))))
        E.assumptions.add('str()/repr() of closed-world values does not raise')
        return I.T(Val.VStr(E.path.fresh('str', vals.STR)))
    M[str] = m_str

    def m_repr(E, args, kw):
        (x,) = args
        if isinstance(x, I.C):
            return I.C(repr(x.v))
        E.assumptions.add('str()/repr() of closed-world values does not raise')
        if isinstance(x, I.T):
            f = z3.Function('PyRepr', vals.VS, vals.STR)
            return I.T(Val.VStr(f(x.t)))
        return I.T(Val.VStr(E.path.fresh('repr', vals.STR)))
    M[repr] = m_repr

    def m_isnan(E, args, kw):
        (x,) = args
        if isinstance(x, I.C):
            try:
                return I.C(math.isnan(x.v))
            except TypeError:
                E.raise_(TypeError, 'isnan')
        t = x.t
        E.fail_if(z3.Not(vals.is_real(t)), TypeError, 'must be real number')
        big = z3.And(vals.is_integral(t), z3.Or(vals.int_of(t) >= vals.F64_OVERFLOW, vals.int_of(t) <= -vals.F64_OVERFLOW))
        E.fail_if(big, OverflowError, 'int too large to convert to float')
        return E.bool_sv(z3.And(Val.is_VFloat(t), z3.fpIsNaN(Val.f(t))))
    M[math.isnan] = m_isnan

    def m_isinf(E, args, kw):
        (x,) = args
        if isinstance(x, I.C):
            try:
                return I.C(math.isinf(x.v))
            except TypeError:
                E.raise_(TypeError, 'isinf')
        t = x.t
        E.fail_if(z3.Not(vals.is_real(t)), TypeError, 'must be real number')
        big = z3.And(vals.is_integral(t), z3.Or(vals.int_of(t) >= vals.F64_OVERFLOW, vals.int_of(t) <= -vals.F64_OVERFLOW))
        E.fail_if(big, OverflowError, 'int too large to convert to float')
        return E.bool_sv(z3.And(Val.is_VFloat(t), z3.fpIsInf(Val.f(t))))
    M[math.isinf] = m_isinf

    M[_noop] = lambda E, args, kw: I.C(None)

    import re as _re
    import base64 as _b64

    def m_b64encode(E, args, kw):
        a = E.lift(args[0])
        E.fail_if(z3.Not(Val.is_VBytes(a)), TypeError, 'a bytes-like object is required')
        f = z3.Function('B64Enc', vals.STR, vals.STR)
        r = f(Val.bs(a))
        ok = z3.Function('BytesDecodeOk', vals.STR, z3.BoolSort())
        E.axiom(ok(r))                      # axiom B64: the encoding is ASCII text
        return I.T(Val.VBytes(r))
    M[_b64.b64encode] = m_b64encode

    import binascii as _binascii
    import datetime as _dt

    def m_b64decode(E, args, kw):
        """base64.b64decode (axiom B64): TypeError for what is neither bytes nor str,
        ValueError for a str with non-ASCII characters, binascii.Error for invalid
        Base64; otherwise the decoded bytes (uninterpreted)"""
        a = E.lift(args[0])
        isb, iss = Val.is_VBytes(a), Val.is_VStr(a)
        E.fail_if(z3.Not(z3.Or(isb, iss)), TypeError, 'argument should be a bytes-like object or ASCII string')
        ascii_ = z3.Function('StrIsAscii', vals.STR, z3.BoolSort())
        E.fail_if(z3.And(iss, z3.Not(ascii_(Val.s(a)))), ValueError,
                  'string argument should contain only ASCII characters')
        okf = z3.Function('spec_b64_decodes', vals.VS, z3.BoolSort())
        E.fail_if(z3.Not(okf(a)), _binascii.Error, 'Incorrect padding')
        f = z3.Function('spec_b64_val', vals.VS, vals.VS)
        r = f(a)
        E.axiom(Val.is_VBytes(r))
        return I.T(r)
    M[_b64.b64decode] = m_b64decode

    def m_strptime(E, args, kw):
        """datetime.strptime (axiom TS): TypeError unless both arguments are str,
        ValueError when the text does not match the format"""
        a, f = E.lift(args[0]), E.lift(args[1])
        E.fail_if(z3.Not(z3.And(Val.is_VStr(a), Val.is_VStr(f))), TypeError, 'strptime() argument must be str')
        okf = z3.Function('spec_strptime_ok', vals.VS, vals.VS, z3.BoolSort())
        E.fail_if(z3.Not(okf(a, f)), ValueError, 'time data does not match format')
        g = z3.Function('spec_strptime_val', vals.VS, vals.VS, vals.VS)
        r = g(a, f)
        E.axiom(Val.is_VDatetime(r))
        return I.T(r)
    M[_dt.datetime.strptime] = m_strptime

    def m_re_compile(E, args, kw):
        if len(args) != 1 or kw:
            raise I.Unsupported('re.compile with flags')
        a = E.lift(args[0])
        E.fail_if(z3.Not(Val.is_VStr(a)), TypeError, 'first argument must be string or compiled pattern')
        okf = z3.Function('ReValid', vals.STR, z3.BoolSort())
        E.fail_if(z3.Not(okf(Val.s(a))), _re.error, 'invalid pattern')
        f = z3.Function('ReCompile', vals.STR, z3.IntSort())
        return I.T(Val.VOther(f(Val.s(a))))
    M[_re.compile] = m_re_compile

    def m_list(E, args, kw):
        if not args:
            return I.SList([])
        (x,) = args
        items = E.iter_items(x, None)
        if items is not None:
            return I.SList(items)
        hook = getattr(E, 'list_of_symbolic', None)
        if hook:
            return hook(x)
        raise I.Unsupported('list() of symbolic iterable')
    M[list] = m_list

    def m_tuple(E, args, kw):
        if not args:
            return I.STuple([])
        items = E.iter_items(args[0], None)
        if items is not None:
            return I.STuple(items)
        raise I.Unsupported('tuple() of symbolic iterable')
    M[tuple] = m_tuple

    def m_dict(E, args, kw):
        if not args and not kw:
            return I.SDict({})
        raise I.Unsupported('dict() with arguments')
    M[dict] = m_dict
    import collections
    M[collections.OrderedDict] = lambda E, args, kw: _ordered_dict(E, args, kw)

    def m_set(E, args, kw):
        if not args:
            return I.C(frozenset())
        if isinstance(args[0], I.C):
            return I.C(frozenset(args[0].v))
        raise I.Unsupported('set() of symbolic iterable')
    M[set] = m_set

    def m_any(E, args, kw):
        if isinstance(args[0], I.SQuant):
            q = args[0]
            b = E.truth(q.body)
            b = z3.BoolVal(b) if isinstance(b, bool) else b
            return E.bool_sv(E.path.quant(z3.Exists([q.i], z3.And(q.i >= 0, q.i < q.n, b)), q.n))
        items = E.iter_items(args[0], None)
        if items is None:
            raise I.Unsupported('any() of symbolic iterable')
        bs = [E.truth(x) for x in items]
        if all(isinstance(b, bool) for b in bs):
            return I.C(any(bs))
        return E.bool_sv(z3.Or(*[b if not isinstance(b, bool) else z3.BoolVal(b) for b in bs]))
    M[any] = m_any

    def m_all(E, args, kw):
        if isinstance(args[0], I.SQuant):
            q = args[0]
            b = E.truth(q.body)
            b = z3.BoolVal(b) if isinstance(b, bool) else b
            qb = E.path.quant(z3.ForAll([q.i], z3.Implies(z3.And(q.i >= 0, q.i < q.n), b)), q.n)
            if q.dsrc is not None:
                E.path.key_quant(qb, q.i, b, q.dsrc)
            return E.bool_sv(qb)
        items = E.iter_items(args[0], None)
        if items is None:
            raise I.Unsupported('all() of symbolic iterable')
        bs = [E.truth(x) for x in items]
        if all(isinstance(b, bool) for b in bs):
            return I.C(all(bs))
        return E.bool_sv(z3.And(*[b if not isinstance(b, bool) else z3.BoolVal(b) for b in bs]))
    M[all] = m_all

    def m_enumerate(E, args, kw):
        items = E.iter_items(args[0], None)
        if items is None:
            raise I.Unsupported('enumerate() of symbolic iterable')
        start = args[1].v if len(args) > 1 else kw.get('start', I.C(0)).v
        return I.SIter([I.STuple([I.C(k + start), x]) for k, x in enumerate(items)])
    M[enumerate] = m_enumerate

    def m_zip(E, args, kw):
        lists = [E.iter_items(a, None) for a in args]
        if any(l is None for l in lists):
            raise I.Unsupported('zip() of symbolic iterable')
        return I.SIter([I.STuple(list(xs)) for xs in zip(*lists)])
    M[zip] = m_zip

    def m_range(E, args, kw):
        if all(isinstance(a, I.C) for a in args):
            return I.C(range(*[a.v for a in args]))
        if len(args) == 1:
            t = E.lift(args[0])
            E.fail_if(z3.Not(vals.is_integral(t)), TypeError, 'range() bound')
            return I.SRange(vals.int_of(t))
        raise I.Unsupported('range() with symbolic start/step')
    M[range] = m_range

    def m_print(E, args, kw):
        return I.C(None)
    M[print] = m_print

    def m_callable(E, args, kw):
        x = args[0]
        if isinstance(x, I.C):
            return I.C(callable(x.v))
        if isinstance(x, (I.SBound, I.SClosure, I.SBuiltinMethod)):
            return I.C(True)
        raise I.Unsupported('callable() of symbolic value')
    M[callable] = m_callable


def _ordered_dict(E, args, kw):
    I = _I()
    if not args and not kw:
        return I.SDict({})
    if len(args) == 1:
        items = E.iter_items(args[0], None)
        if items is None:
            raise I.Unsupported('OrderedDict() of symbolic iterable')
        d = I.SDict({})
        for it in items:
            k, v = E.unpack(it, 2, None)
            if isinstance(d, I.SDict) and isinstance(k, I.C):
                d.d[k.v] = v
            else:
                if isinstance(d, I.SDict):
                    d = I.T(E.lift(d))
                d = dict_store(E, d, k, v)
        return d
    raise I.Unsupported('OrderedDict() arguments')


# ----------------------------------------------------------------------------
# methods of builtin kinds


def call_method(E, recv, name, args, kwargs):
    I = _I()
    V = Val
    hook = getattr(E, 'method_hook', None)
    if hook is not None:
        r = hook(recv, name, args, kwargs)
        if r is not None:
            return r
    if isinstance(recv, I.SFile):
        if name == 'write' and len(args) == 1:
            from . import libmodel
            libmodel.effect(E, 'write', recv.path)
            return I.C(None)
        raise I.Unsupported('method %s of a file object' % name)
    if isinstance(recv, I.C):
        if all(isinstance(a, I.C) for a in args) and all(isinstance(a, I.C) for a in kwargs.values()):
            if isinstance(recv.v, (list, dict, set)) and name in ('append', 'extend', 'update', 'add', 'pop',
                                                                  'insert', 'remove', 'sort', 'clear', 'setdefault'):
                raise I.Unsupported('mutation of a concrete (global) container: %s' % name)
            try:
                return I.C(getattr(recv.v, name)(*[a.v for a in args], **{k: a.v for k, a in kwargs.items()}))
            except Exception as e:
                E.raise_(type(e), 'native method')
        if isinstance(recv.v, str) and name == 'format':
            E.assumptions.add('str()/repr() of closed-world values does not raise')
            import string
            try:
                fields = [f for f in string.Formatter().parse(recv.v) if f[1] is not None]
            except ValueError:
                E.raise_(ValueError, 'bad format string')
            npos = 0
            auto = 0
            for (_, fname, fspec, conv) in fields:
                base = fname.split('.')[0].split('[')[0]
                if base == '':
                    auto += 1
                    npos = max(npos, auto)
                elif base.isdigit():
                    npos = max(npos, int(base) + 1)
                elif base not in kwargs:
                    E.raise_(KeyError, 'format key')
                if fspec or '.' in fname or '[' in fname:
                    if fspec and fspec not in ('',):
                        raise I.Unsupported('format spec %r' % fspec)
            if npos > len(args):
                E.raise_(IndexError, 'format index')
            terms = []
            for a in list(args) + [kwargs[k] for k in sorted(kwargs)]:
                terms.append(E.lift(a) if not isinstance(a, (I.SExc, I.SBound, I.SClosure, I.SBuiltinMethod)) else V.VNone)
            return opaque_string(E, 'sfmt:' + recv.v, terms)
        if isinstance(recv.v, str) and name == 'join':
            items = E.iter_items(args[0], None)
            if items is not None:
                ts = [E.lift(x) for x in items]
                for x in ts:
                    E.fail_if(z3.Not(V.is_VStr(x)), TypeError, 'join item')
                if not ts:
                    return I.C('')
                out = V.s(ts[0])
                for x in ts[1:]:
                    out = str_concat(E, str_concat(E, out, vals.strlit(recv.v)), V.s(x))
                return I.T(V.VStr(out))
        recv = I.T(E.lift(recv))
    if isinstance(recv, I.SList):
        if name == 'append':
            recv.items.append(args[0])
            return I.C(None)
        if name == 'extend':
            items = E.iter_items(args[0], None)
            if items is None:
                raise I.Unsupported('extend with symbolic iterable')
            recv.items.extend(items)
            return I.C(None)
        if name == 'insert' and isinstance(args[0], I.C):
            recv.items.insert(args[0].v, args[1])
            return I.C(None)
        raise I.Unsupported('list method %s' % name)
    if isinstance(recv, I.SDict):
        if name == 'items':
            return I.SIter([I.STuple([k if isinstance(k, I.SV) else I.C(k), v]) for k, v in recv.d.items()])
        if name == 'keys':
            return I.SIter([k if isinstance(k, I.SV) else I.C(k) for k in recv.d])
        if name == 'values':
            return I.SIter(list(recv.d.values()))
        if name == 'get' and isinstance(args[0], I.C):
            return recv.d.get(args[0].v, args[1] if len(args) > 1 else I.C(None))
        if name == 'update':
            src = args[0]
            if isinstance(src, I.SDict):
                recv.d.update(src.d)
                return I.C(None)
            raise I.Unsupported('dict.update with symbolic mapping on an aliased local dict')
        if name == 'copy':
            return I.SDict(dict(recv.d))
        raise I.Unsupported('dict method %s' % name)
    if isinstance(recv, I.STuple):
        raise I.Unsupported('tuple method %s' % name)
    t = recv.t
    if name == 'get' and args:
        E.fail_if(z3.Not(V.is_VDict(t)), AttributeError, 'get')
        kt = E.lift(args[0])
        E.axiom(vals.key_axiom(kt))
        if E.path is not None:
            E.path.key_lookup(t, kt)
        r = z3.Select(V.dm(t), vals.KeyId(kt))
        dflt = E.lift(args[1]) if len(args) > 1 else V.VNone
        return I.T(z3.If(r == V.VAbsent, dflt, r))
    if name in ('items', 'keys', 'values') and not args:
        E.fail_if(z3.Not(V.is_VDict(t)), AttributeError, name)
        return I.SItems(t, name)
    if name == 'match':
        # compiled-pattern.match(s): opaque, deterministic; never raises on str
        a = E.lift(args[0])
        E.fail_if(z3.Not(z3.Or(V.is_VStr(a), V.is_VBytes(a))), TypeError, 'expected string or bytes-like object')
        f = z3.Function('ReMatch', vals.VS, vals.VS, vals.VS)
        r = f(t, a)
        E.axiom(z3.Or(V.is_VNone(r), V.is_VOther(r)))
        return I.T(r)
    if name == 'total_seconds' and not args:
        f = z3.Function('TimedeltaSeconds', vals.VS, vals.FP)
        return I.T(V.VFloat(f(t)))
    if name in ('startswith', 'endswith'):
        a = E.lift(args[0])
        E.fail_if(z3.Not(z3.Or(V.is_VStr(a), V.is_VTuple(a))), TypeError, name + ' arg')
        pa, pt = z3.simplify(V.s(a)), z3.simplify(V.s(t))
        if vals.is_strlit(pa) and vals.is_strlit(pt):
            ta, tt = vals.strlit_text(pa), vals.strlit_text(pt)
            return I.C(tt.startswith(ta) if name == 'startswith' else tt.endswith(ta))
        f = z3.Function('StartsWith' if name == 'startswith' else 'EndsWith', vals.STR, vals.STR, z3.BoolSort())
        return E.bool_sv(f(pt, pa))
    if name == 'replace' and len(args) == 2 and not kwargs and E.must(V.is_VStr(t)):
        a, b = E.lift(args[0]), E.lift(args[1])
        E.fail_if(z3.Not(z3.And(V.is_VStr(a), V.is_VStr(b))), TypeError, 'replace() arguments must be str')
        f = z3.Function('StrReplace', vals.STR, vals.STR, vals.STR, vals.STR)
        return I.T(V.VStr(f(V.s(t), V.s(a), V.s(b))))
    if name == 'isascii':
        f = z3.Function('StrIsAscii', vals.STR, z3.BoolSort())
        return E.bool_sv(f(V.s(t)))
    if name == 'encode':
        # str.encode('utf-8'): may raise UnicodeEncodeError (a ValueError) for lone surrogates
        f = z3.Function('Utf8', vals.STR, vals.STR)
        ok = z3.Function('Utf8Ok', vals.STR, z3.BoolSort())
        E.fail_if(z3.Not(ok(V.s(t))), UnicodeEncodeError, 'surrogates')
        return I.T(V.VBytes(f(V.s(t))))
    if name == 'decode':
        f = z3.Function('BytesDecode', vals.STR, vals.STR)
        ok = z3.Function('BytesDecodeOk', vals.STR, z3.BoolSort())
        E.fail_if(z3.Not(ok(V.bs(t))), UnicodeDecodeError, 'decode')
        return I.T(V.VStr(f(V.bs(t))))
    if name == 'format':
        E.assumptions.add('str()/repr() of closed-world values does not raise')
        return opaque_string(E, 'sfmt', [t] + [E.lift(a) if not isinstance(a, (I.SExc, I.SBound, I.SClosure)) else V.VNone for a in args])
    if name == 'utcoffset':
        f = z3.Function('tz_utcoffset', vals.VS, vals.VS, vals.VS)
        return I.T(f(t, E.lift(args[0])))
    if name == 'strftime':
        f = z3.Function('Strftime', z3.IntSort(), vals.STR, vals.STR)
        a = E.lift(args[0])
        E.fail_if(z3.Not(V.is_VStr(a)), TypeError, 'strftime format')
        return I.T(V.VStr(f(V.dtid(t), V.s(a))))
    hook = getattr(E, 'symbolic_method', None)
    if hook is not None:
        return hook(recv, name, args, kwargs)
    raise I.Unsupported('method %s on symbolic value' % name)
