"""Native-only: random IR data types and the relation rt(T) between an IR type and the runtime
validator the python_types backend must construct for it (bounded stand-in for the generator,
which is text-producing code outside the VC generator's reach)."""
import stone.ir.data_types as dt
import stone.ir.api as api
import stone.backends.python_rsrc.stone_validators as bv

INT_CLASSES = ['Int32', 'UInt32', 'Int64', 'UInt64']
FLOAT_CLASSES = ['Float32', 'Float64']


def describe_type(rng, depth=0):
    """a JSON description of a random IR data type"""
    r = rng.random()
    if depth < 3 and r < 0.15:
        inner = describe_type_nonnull(rng, depth + 1)
        while inner['t'] == 'Void':         # the language has no nullable Void
            inner = describe_type_nonnull(rng, depth + 1)
        return {'t': 'Nullable', 'of': inner}
    return describe_type_nonnull(rng, depth)


def describe_type_nonnull(rng, depth):
    r = rng.random()
    if depth < 3 and r < 0.12:
        lo = rng.choice([None, None, 0, 1, 3])
        hi = rng.choice([None, None, 3, 10])
        return {'t': 'List', 'of': describe_type(rng, depth + 1), 'min_items': lo, 'max_items': hi}
    if depth < 3 and r < 0.2:
        return {'t': 'Map', 'k': {'t': 'String', 'min_length': None, 'max_length': None, 'pattern': None},
                'v': describe_type(rng, depth + 1)}
    if r < 0.4:
        c = rng.choice(INT_CLASSES)
        lo = rng.choice([None, None, 0, 1, -1 if c[0] == 'I' else 0, 5])
        hi = rng.choice([None, None, 0 if lo in (None, 0) else None, 7, 100])
        if lo is not None and hi is not None and lo > hi:
            hi = None
        return {'t': c, 'min_value': lo, 'max_value': hi}
    if r < 0.55:
        c = rng.choice(FLOAT_CLASSES)
        lo = rng.choice([None, None, 0.0, -1.5, 1.0])
        hi = rng.choice([None, None, 0.0 if lo in (None, 0.0, -1.5) else None, 2.5, 1e10])
        if lo is not None and hi is not None and lo > hi:
            hi = None
        return {'t': c, 'min_value': lo, 'max_value': hi}
    if r < 0.7:
        lo = rng.choice([None, None, 0, 1, 2])
        hi = rng.choice([None, None, 2, 5])
        return {'t': 'String', 'min_length': lo, 'max_length': hi,
                'pattern': rng.choice([None, None, '[a-z]+', 'a|b', "it's", 'x\\d{2}', '"q"'])}
    if r < 0.78:
        return {'t': 'Timestamp', 'fmt': rng.choice(['%Y-%m-%dT%H:%M:%SZ', '%Y', "%d 'of' %B", '%H:%M'])}
    if r < 0.84:
        return {'t': rng.choice(['Boolean', 'Bytes', 'Void'])}
    kind = rng.choice(['Struct', 'Union', 'Alias'])
    return {'t': kind, 'name': rng.choice(['Foo', 'foo_bar', 'HTTPError', 'a1']), 'ns': rng.choice(['here', 'here', 'other', 'Deep_ns'])}


def build_type(d):
    t = d['t']
    if t == 'Nullable':
        return dt.Nullable(build_type(d['of']))
    if t == 'List':
        return dt.List(build_type(d['of']), d['min_items'], d['max_items'])
    if t == 'Map':
        return dt.Map(build_type(d['k']), build_type(d['v']))
    if t in INT_CLASSES or t in FLOAT_CLASSES:
        return getattr(dt, t)(d['min_value'], d['max_value'])
    if t == 'String':
        return dt.String(d['min_length'], d['max_length'], d['pattern'])
    if t == 'Timestamp':
        return dt.Timestamp(d['fmt'])
    if t in ('Boolean', 'Bytes', 'Void'):
        return getattr(dt, t)()
    ns = api.ApiNamespace(d['ns'])
    if t == 'Struct':
        return dt.Struct(d['name'], ns, None)
    if t == 'Union':
        return dt.Union(d['name'], ns, None, True)
    return dt.Alias(d['name'], ns, None)


def build_ns(name):
    return api.ApiNamespace(name)


class _Ref(bv.Composite):
    """what a name of the generated module evaluates to in the check below"""

    def __init__(self, path):
        self.path = path

    def validate(self, val):
        return val

    def __getattr__(self, name):
        if name.startswith('__'):
            raise AttributeError(name)
        return _Ref(self.path + '.' + name)


class _Names(dict):
    def __missing__(self, key):
        return _Ref(key)


def evaluate(text):
    """the validator tree the emitted constructor text denotes"""
    return eval(text, {'__builtins__': {}}, _Names({'bv': bv}))


def _same_num(a, b):
    if a is None or b is None:
        return a is None and b is None
    return type(a) is type(b) and a == b


def matches(v, t, ns_name):
    """validator v is rt(t): same class, same declared parameters, all the way down"""
    from stone.backends.python_helpers import fmt_class, fmt_namespace
    if isinstance(t, dt.Nullable):
        return type(v) is bv.Nullable and matches(v.validator, t.data_type, ns_name)
    if isinstance(t, dt.List):
        return (type(v) is bv.List and _same_num(v.min_items, t.min_items) and _same_num(v.max_items, t.max_items)
                and matches(v.item_validator, t.data_type, ns_name))
    if isinstance(t, dt.Map):
        return (type(v) is bv.Map and matches(v.key_validator, t.key_data_type, ns_name)
                and matches(v.value_validator, t.value_data_type, ns_name))
    for c in INT_CLASSES:
        if type(t) is getattr(dt, c):
            lo = t.min_value if t.min_value is not None else t.minimum
            hi = t.max_value if t.max_value is not None else t.maximum
            return type(v) is getattr(bv, c) and v.minimum == lo and v.maximum == hi
    for c in FLOAT_CLASSES:
        if type(t) is getattr(dt, c):
            if type(v) is not getattr(bv, c):
                return False
            lo = type(v).default_minimum if t.min_value is None else t.min_value
            hi = type(v).default_maximum if t.max_value is None else t.max_value
            return v.minimum == lo and v.maximum == hi
    if isinstance(t, dt.String):
        return (type(v) is bv.String and _same_num(v.min_length, t.min_length) and _same_num(v.max_length, t.max_length)
                and v.pattern == t.pattern)
    if isinstance(t, dt.Timestamp):
        return type(v) is bv.Timestamp and v.format == t.format
    for c in ('Boolean', 'Bytes', 'Void'):
        if type(t) is getattr(dt, c):
            return type(v) is getattr(bv, c)
    if isinstance(t, (dt.Struct, dt.Union, dt.Alias)):
        want = fmt_class(t.name) + '_validator'
        if t.namespace.name != ns_name:
            want = fmt_namespace(t.namespace.name) + '.' + want
        return isinstance(v, _Ref) and v.path == want
    return False


def gen(rng):
    call = lambda fn, *args: {'k': 'call', 'fn': fn, 'args': list(args)}
    return {'ns': call('spec.gen_types:build_ns', 'here'), 'data_type': call('spec.gen_types:build_type', describe_type(rng))}
