"""Native-only: layout variants of a spec and a canonical signature of the API description (C11)."""
import re

import spec.frontend_gen as FG


BASE = dict(FG.BASE)
BASE['c.stone'] = '''namespace c
    "First paragraph of the namespace doc."

import a
import b

annotation_type Zeta
    "an annotation type"
    level Int64 = 1

annotation_type Alpha
    owner String
    note String?

annotation Marked = Alpha(owner="team", note="n")
annotation Levelled = Zeta(level=3)

struct Zed
    last Int32
        @Marked

struct Abc extends Zed
    first a.Holder?
        @Levelled

union Mid
    m1
    m2 Abc

struct UsesB
    o b.Other?

struct CrossKid extends a.Holder
    "inherits, across namespaces, fields whose types are local names of the parent's namespace"
    ck Int32

alias Later = List(Abc)
alias Early = Later

route zz_last(Abc, Mid, Void)

route aa_first:3(Void, Void, Void)

route aa_first(Zed, Void, Void)
'''


def blocks(text):
    """(header lines, [top-level definition blocks]) of one spec file: the namespace line (+ its doc) and the
    imports stay in front, every other top-level definition is a movable block"""
    lines = text.split('\n')
    head, defs, cur = [], [], None
    i = 0
    # header: namespace line, its indented doc, blank lines, imports
    while i < len(lines):
        l = lines[i]
        if l.startswith('namespace') or l.startswith('import') or l.strip() == '' or (l.startswith(' ') and not defs and cur is None):
            head.append(l)
            i += 1
        else:
            break
    for l in lines[i:]:
        if l and not l.startswith(' ') and not l.startswith('#'):
            cur = [l]
            defs.append(cur)
        elif cur is not None:
            cur.append(l)
    return head, ['\n'.join(b).rstrip('\n') for b in defs]


def variant(rng, base=None):
    """[(path, text)]: same declarations, different layout"""
    base = dict(base or BASE)
    out = []
    names = sorted(base)
    rng.shuffle(names)                                   # file order
    for name in names:
        head, defs = blocks(base[name])
        if rng.random() < 0.7:
            rng.shuffle(defs)                            # definition order within the file
        nsline = [l for l in head if l.startswith('namespace')][0]
        imports = [l for l in head if l.startswith('import')]
        parts = 1 if rng.random() < 0.5 or len(defs) < 2 else rng.randrange(2, min(4, len(defs)) + 1)
        cuts = sorted(rng.sample(range(1, len(defs)), parts - 1)) if parts > 1 else []
        chunks = [defs[a:b] for a, b in zip([0] + cuts, cuts + [len(defs)])]
        for k, chunk in enumerate(chunks):
            # the namespace doc stays with the first part (docs concatenate in file order: documented)
            h = list(head) if k == 0 else [nsline, ''] + imports + ['']
            text = '\n'.join(h).rstrip('\n') + '\n\n' + '\n\n'.join(chunk) + '\n'
            text = decorate(rng, text)
            out.append(('%s_%d.stone' % (name[:-6], k) if parts > 1 else name, text))
    return out


def decorate(rng, text):
    """comments, blank lines and trailing whitespace at line boundaries"""
    lines = text.split('\n')
    res = []
    for l in lines:
        r = rng.random()
        if r < 0.06:
            res.append('# a comment')
        elif r < 0.1 and l.strip() and not l.startswith(' '):
            res.append('')
        if rng.random() < 0.05 and l.strip() and '"' not in l:
            l = l + '   '
        res.append(l)
    return '\n'.join(res)


# ---------------------------------------------------------------- canonical signature

def _type_sig(t):
    import stone.ir.data_types as ird
    if isinstance(t, ird.Alias):
        return 'alias:%s.%s' % (t.namespace.name, t.name)
    if isinstance(t, ird.Nullable):
        return _type_sig(t.data_type) + '?'
    if isinstance(t, ird.List):
        return 'List(%s,%r,%r)' % (_type_sig(t.data_type), t.min_items, t.max_items)
    if isinstance(t, ird.Map):
        return 'Map(%s,%s)' % (_type_sig(t.key_data_type), _type_sig(t.value_data_type))
    if isinstance(t, (ird.Struct, ird.Union)):
        return '%s.%s' % (t.namespace.name, t.name)
    attrs = sorted((k, repr(v)) for k, v in vars(t).items() if not k.startswith('_') and k not in ('pattern_re',))
    return '%s%r' % (type(t).__name__, attrs)


def _default_sig(f):
    if not f.has_default:
        return None
    d = f.default
    return 'tag:%s' % d.tag_name if hasattr(d, 'tag_name') else repr(d)


def signature(api):
    """everything the statement says backends see, in the order the description presents it"""
    import stone.ir.data_types as ird
    out = []
    for nsname, ns in api.namespaces.items():
        out.append(('namespace', nsname, ns.doc))
        out.append(('imports', [n.name for n in ns.get_imported_namespaces()]))
        for r in ns.routes:
            out.append(('route', r.name, r.version, _type_sig(r.arg_data_type), _type_sig(r.result_data_type),
                        _type_sig(r.error_data_type), r.doc, bool(r.deprecated), sorted((k, repr(v)) for k, v in r.attrs.items())))
        for d in ns.data_types:
            kind = 'struct' if isinstance(d, ird.Struct) else 'union'
            out.append((kind, d.name, d.doc, d.parent_type.name if d.parent_type else None,
                        [(f.name, _type_sig(f.data_type), f.doc, _default_sig(f) if kind == 'struct' else None,
                          getattr(f, 'omitted_caller', None), bool(getattr(f, 'deprecated', False)))
                         for f in d.fields],
                        [(s.name, s.data_type.name) for s in d.get_enumerated_subtypes()] if kind == 'struct' and d.has_enumerated_subtypes() else None,
                        getattr(d, 'closed', None),
                        sorted(d.get_examples().keys()) if hasattr(d, 'get_examples') else None))
        for a in ns.aliases:
            out.append(('alias', a.name, _type_sig(a.data_type), a.doc))
        for a in ns.annotations:
            out.append(('annotation', a.name, type(a).__name__))
        out.append(('annotation_types', [a.name for a in ns.annotation_types]))
        out.append(('linearized', [d.name for d in ns.linearize_data_types()], [a.name for a in ns.linearize_aliases()]))
    return out


def build_variant(pairs):
    return [tuple(p) for p in pairs]


def build_unnormalized_namespace(seed):
    """a namespace of the compiled base specs with every listing shuffled (what normalize() receives when the
    declarations arrive in another order)"""
    import random
    from stone.frontend.frontend import specs_to_ir
    rng = random.Random(seed)
    apiobj = specs_to_ir(sorted(BASE.items()))
    ns = apiobj.namespaces[rng.choice(sorted(apiobj.namespaces))]
    for lst in (ns.routes, ns.data_types, ns.aliases, ns.annotations, ns.annotation_types):
        rng.shuffle(lst)
    return ns


class StdinText(list):
    """the `specs` argument of the stdin slice: an (ignored) list carrying the text that standard input delivers"""
    text = ''


def stdin_text(pairs):
    s = StdinText()
    s.text = ''.join(t if t.endswith('\n') else t + '\n' for _, t in pairs)
    return s
