"""SpecPy predicates about ordered listings (C11 / C02): natively computed, symbolically uninterpreted
(their only source of truth in a proof is library axiom SORT at a call of list.sort)."""


def sorted_by(lst, key):
    """the list is ordered by attribute `key` of its elements (None: by the elements' own order)"""
    if key is None:
        return all(not (lst[i + 1] < lst[i]) for i in range(len(lst) - 1))
    return all(getattr(lst[i], key) <= getattr(lst[i + 1], key) for i in range(len(lst) - 1))


def permutation_of(a, b):
    """same elements (by identity), any order"""
    return sorted(map(id, a)) == sorted(map(id, b))
