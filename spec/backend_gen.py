"""Native-only builders for the backend contracts (C18)."""
import stone.backend as sb


class PlainBackend(sb.Backend):
    """the smallest concrete backend: what every backend inherits is what is under contract"""

    def generate(self, api):
        pass


def build_backend(root, with_manifest):
    return PlainBackend(root, [], sb.OutputManifest() if with_manifest else None)


def build_manifest(names):
    m = sb.OutputManifest()
    m._outputs.update(names)
    return m


TEXTS = ['x', 'a b', '{', '}', '{}', '{0}', '{name}', '{{', '}}', '%s', 'é ü', 'tab\there', 'word ' * 30, '',
         'a{b}c {d!r:>4}', '\\n', '🙂', 'if (x) { y; }']


def build_backend_state(root, cur_indent, emitted, seed):
    """a backend in the middle of emitting: some lines already in the buffer, some indentation"""
    b = PlainBackend(root, [], None)
    b.cur_indent = cur_indent
    for s in emitted:
        b.emit_raw(s + '\n')
    return b


# ---------------------------------------------------------------- emit scripts against a reference pretty-printer

def gen_script(rng):
    ops = []
    depth = 0
    for _ in range(rng.randrange(1, 12)):
        r = rng.random()
        if r < 0.35:
            ops.append(['emit', rng.choice(TEXTS).replace('\n', ' ')])
        elif r < 0.5:
            ops.append(['raw', rng.choice(TEXTS) + '\n'])
        elif r < 0.62:
            ops.append(['indent', rng.choice([None, None, 2, 0, 7])])
            depth += 1
        elif r < 0.72 and depth:
            ops.append(['dedent'])
            depth -= 1
        elif r < 0.8:
            ops.append(['ph', ''])
            ops.append(['pos', rng.choice(TEXTS)])
        elif r < 0.9:
            name = rng.choice(['n1', 'n2', 'zz'])
            ops.append(['ph', name])
            ops.append(['named', name, rng.choice(TEXTS)])
        else:
            ops.append(['wrapped', ' '.join(rng.choice(['alpha', 'b', '{x}', 'é', '}', '{0}']) for _ in range(rng.randrange(1, 20))),
                        rng.choice(['', '# '])])
    return ops


def build_backend_script(script):
    """runs the script through the real emitters (indent contexts via ExitStack); the script is kept on the
    object for the reference"""
    import contextlib
    b = PlainBackend('out', [], None)
    with contextlib.ExitStack() as stack:
        ctxs = []
        for op in script:
            if op[0] == 'emit':
                b.emit(op[1])
            elif op[0] == 'raw':
                b.emit_raw(op[1])
            elif op[0] == 'indent':
                cm = b.indent(op[1]) if op[1] is not None else b.indent()
                cm.__enter__()
                ctxs.append(cm)
            elif op[0] == 'dedent':
                ctxs.pop().__exit__(None, None, None)
            elif op[0] == 'ph':
                b.emit_placeholder(op[1])
            elif op[0] == 'pos':
                b.add_positional_placeholder(op[1])
            elif op[0] == 'named':
                b.add_named_placeholder(op[1], op[2])
            elif op[0] == 'wrapped':
                b.emit_wrapped_text(op[1], prefix=op[2], width=40)
        # the buffer is rendered inside the innermost contexts, as a backend does before leaving them
        b._verif_script = script
        b._verif_text = b.output_buffer_to_string()
        while ctxs:
            ctxs.pop().__exit__(None, None, None)
    return b


def reference_text(script):
    """independent pretty-printer: what the file must contain"""
    import textwrap
    out = []
    stack = []
    pos = [op[1] for op in script if op[0] == 'pos']
    named = {}
    for op in script:
        if op[0] == 'named':
            named[op[1]] = op[2]            # the last registration of a name wins
    npos = 0
    for op in script:
        cur = sum(stack)
        if op[0] == 'emit':
            out.append((' ' * cur + op[1] + '\n') if op[1] else '\n')
        elif op[0] == 'raw':
            out.append(op[1])
        elif op[0] == 'indent':
            stack.append(4 if op[1] is None else op[1])
        elif op[0] == 'dedent':
            stack.pop()
        elif op[0] == 'ph':
            if op[1] == '':
                out.append(pos[npos])
                npos += 1
            else:
                out.append(named[op[1]])
        elif op[0] == 'wrapped':
            lead = ' ' * cur + op[2]
            lines = textwrap.fill(op[1], initial_indent=lead, subsequent_indent=lead, width=40,
                                  break_long_words=False, break_on_hyphens=False)
            out.append(lines + '\n')
    return ''.join(out)


# ---------------------------------------------------------------- namespaces and items for the table contracts (C02)

def build_namespace(n_items):
    import stone.ir.api as api
    import stone.ir.data_types as dt
    ns = api.ApiNamespace('n')
    for i in range(n_items):
        ns.add_data_type(dt.Struct('T%d' % i, ns, None))
        ns.add_alias(dt.Alias('A%d' % i, ns, None))
        ns.add_annotation_type(dt.AnnotationType('Y%d' % i, ns, None, []))
        ns.add_annotation(dt.Deprecated('D%d' % i, ns, None))
    return ns


def build_item(kind, name):
    import stone.ir.api as api
    import stone.ir.data_types as dt
    ns = api.ApiNamespace('n')
    if kind == 'struct':
        return dt.Struct(name, ns, None)
    if kind == 'union':
        return dt.Union(name, ns, None, True)
    if kind == 'alias':
        return dt.Alias(name, ns, None)
    if kind == 'annotation_type':
        return dt.AnnotationType(name, ns, None, [])
    return dt.Deprecated(name, ns, None)
