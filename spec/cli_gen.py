"""Native scenario builders and the independent reference for the route-selection
slice of stone.cli:main (C19).  Used natively only (bounded stand-in): a small
multi-namespace spec with a route schema is compiled by the frontend of the tree
under verification; the reference below recomputes, from the unpruned API and the
raw command-line values, what the backends must see."""
import re

SPECS = [
    ('stone_cfg.stone', '''
namespace stone_cfg

struct Route
    auth String = "user"
    beta Boolean = false
    weight Int64?
    ratio Float64?
    host String?
'''),
    ('alpha.stone', '''
namespace alpha

struct A
    x Int32

route get(A, Void, Void)
    attrs
        auth = "app"
        weight = 3

route get:2(A, Void, Void)
    attrs
        beta = true
        ratio = 0.5

route put(Void, A, Void)
    attrs
        host = "content"
        weight = 0

route zap:3(Void, Void, Void)
'''),
    ('beta.stone', '''
namespace beta

import alpha

struct B
    a alpha.A

route list(B, Void, Void)
    attrs
        auth = "noauth"
        beta = true
        weight = 3
        ratio = 2.5

route list:2(B, Void, Void)
    attrs
        host = ""
'''),
    ('gamma.stone', '''
namespace gamma

struct G
    s String
'''),
]

ATTR_NAMES = ['auth', 'beta', 'weight', 'ratio', 'host']
NS_NAMES = ['alpha', 'beta', 'gamma']


class Args:
    """the attributes of the argparse result that the slice reads"""

    def __init__(self, filter_by_route_attr, whitelist_namespace_routes, blacklist_namespace_routes, attribute):
        self.filter_by_route_attr = filter_by_route_attr
        self.whitelist_namespace_routes = whitelist_namespace_routes
        self.blacklist_namespace_routes = blacklist_namespace_routes
        self.attribute = attribute


def build_args(f, w, b, a):
    return Args(f, w, b, a)


def build_api():
    from stone.frontend.frontend import specs_to_ir
    return specs_to_ir(list(SPECS))


# ---------------------------------------------------------------- expressions

LITS = ['null', 'true', 'false', '0', '1', '3', '-1', '0.5', '2.5', '3.0', '1e0', '""', '"app"', '"user"',
        '"content"', '"noauth"']


def rand_expr(rng, depth=0):
    """(tree, text): text renders the tree with the minimal parentheses plus random
    redundant ones"""
    if depth >= 3 or rng.random() < 0.35:
        name = rng.choice(ATTR_NAMES + ['nosuch'])
        op = rng.choice(['=', '!='])
        lit = rng.choice(LITS)
        return ('pred', op, name, lit)
    return (rng.choice(['and', 'or']), rand_expr(rng, depth + 1), rand_expr(rng, depth + 1))


def render(t, rng, parent=None, side=None):
    if t[0] == 'pred':
        s = '%s%s%s' % (t[2], rng.choice([' ', '']) + t[1] + rng.choice([' ', '']), t[3])
        return '(%s)' % s if rng.random() < 0.15 else s
    s = '%s %s %s' % (render(t[1], rng, t[0], 'l'), t[0], render(t[2], rng, t[0], 'r'))
    need = False
    if parent == 'and' and t[0] == 'or':
        need = True
    # left-associative: a right operand of the same operator is grouped explicitly
    if parent == t[0] and side == 'r':
        need = True
    if need or rng.random() < 0.15:
        return '(%s)' % s
    return s


def malform(text, rng):
    toks = re.findall(r'"[^"]*"|[A-Za-z_][A-Za-z0-9_-]*|!=|=|\(|\)|-?[0-9.e]+|\S', text)
    k = rng.randrange(5)
    if k == 0 and toks:
        del toks[rng.randrange(len(toks))]
    elif k == 1:
        toks.insert(rng.randrange(len(toks) + 1), rng.choice(['and', 'or', '(', ')', '=', 'x', '3', '@', "'a'", '&&']))
    elif k == 2 and len(toks) > 1:
        i = rng.randrange(len(toks) - 1)
        toks[i], toks[i + 1] = toks[i + 1], toks[i]
    elif k == 3:
        toks = toks[:rng.randrange(len(toks))] if toks else toks
    else:
        toks.append(rng.choice([')', 'and', 'x = 1', '#']))
    return ' '.join(toks)


# ---------------------------------------------------------------- independent reader of expressions

_TOK = re.compile(r'\s*(?:(?P<str>"(?:[^\\"]|\\.)*")|(?P<num>-?\d+(?:\.\d*(?:e-?\d+)?|e-?\d+)?)'
                  r'|(?P<id>[A-Za-z_][A-Za-z0-9_-]*)|(?P<op>!=|=|\(|\)))')


def ref_tokens(text):
    out = []
    pos = 0
    text = text.rstrip(' ')
    while pos < len(text):
        m = _TOK.match(text, pos)
        if not m:
            return None
        pos = m.end()
        if m.group('str') is not None:
            out.append(('lit', m.group('str')[1:-1]))
        elif m.group('num') is not None:
            s = m.group('num')
            out.append(('lit', float(s) if ('.' in s or 'e' in s) else int(s)))
        elif m.group('id') is not None:
            w = m.group('id')
            if w in ('and', 'or'):
                out.append((w, w))
            elif w == 'true':
                out.append(('lit', True))
            elif w == 'false':
                out.append(('lit', False))
            elif w == 'null':
                out.append(('lit', None))
            else:
                out.append(('id', w))
        else:
            out.append((m.group('op'), m.group('op')))
    return out


def ref_parse(text):
    """recursive descent: or < and < atom; None when the text is not an expression"""
    toks = ref_tokens(text)
    if toks is None:
        return None
    pos = [0]

    def peek():
        return toks[pos[0]][0] if pos[0] < len(toks) else None

    def atom():
        if peek() == '(':
            pos[0] += 1
            e = disj()
            if e is None or peek() != ')':
                return None
            pos[0] += 1
            return e
        if peek() != 'id':
            return None
        name = toks[pos[0]][1]
        pos[0] += 1
        if peek() not in ('=', '!='):
            return None
        op = toks[pos[0]][1]
        pos[0] += 1
        if peek() != 'lit':
            return None
        lit = toks[pos[0]][1]
        pos[0] += 1
        return ('pred', op, name, lit)

    def conj():
        e = atom()
        while e is not None and peek() == 'and':
            pos[0] += 1
            r = atom()
            if r is None:
                return None
            e = ('and', e, r)
        return e

    def disj():
        e = conj()
        while e is not None and peek() == 'or':
            pos[0] += 1
            r = conj()
            if r is None:
                return None
            e = ('or', e, r)
        return e

    e = disj()
    if e is None or pos[0] != len(toks):
        return None
    return e


def ref_eval(t, attrs):
    if t[0] == 'pred':
        v = attrs.get(t[2])
        return (v == t[3]) if t[1] == '=' else (v != t[3])
    if t[0] == 'and':
        return bool(ref_eval(t[1], attrs)) and bool(ref_eval(t[2], attrs))
    return bool(ref_eval(t[1], attrs)) or bool(ref_eval(t[2], attrs))


# ---------------------------------------------------------------- the reference of the slice

def snapshot(args, api, debug):
    return {
        'ns': sorted(api.namespaces),
        'routes': dict((n, list(ns.routes)) for n, ns in api.namespaces.items()),
        'attrs': dict((id(r), dict(r.attrs)) for ns in api.namespaces.values() for r in ns.routes),
        'types': dict((n, list(ns.data_types)) for n, ns in api.namespaces.items()),
        'schema': [f.name for f in api.route_schema.fields],
    }


def reference(args, old):
    """('exit',) or ('ok', visible routes per namespace, visible attribute names)"""
    tree = None
    if args.filter_by_route_attr:
        tree = ref_parse(args.filter_by_route_attr)
        if tree is None:
            return ('exit',)
    for n in (args.whitelist_namespace_routes or []):
        if n not in old['ns']:
            return ('exit',)
    for n in (args.blacklist_namespace_routes or []):
        if n not in old['ns']:
            return ('exit',)
    vis = {}
    for n in old['ns']:
        rs = old['routes'][n]
        if args.whitelist_namespace_routes and n not in args.whitelist_namespace_routes:
            rs = []
        if args.blacklist_namespace_routes and n in args.blacklist_namespace_routes:
            rs = []
        if tree is not None:
            rs = [r for r in rs if ref_eval(tree, old['attrs'][id(r)])]
        vis[n] = rs
    named = list(args.attribute or [])
    # "attribute names unknown to -a are reported as errors rather than ignored": also next to :all
    for a in named:
        if a != ':all' and a not in old['schema']:
            return ('exit',)
    if ':all' in named:
        keep = list(old['schema'])
    else:
        keep = [f for f in old['schema'] if f in named]
    return ('ok', vis, keep)


def check(args, api, exc, old):
    """the post-state is exactly what the reference says"""
    ref = reference(args, old)
    if ref[0] == 'exit':
        return exc is SystemExit or isinstance(exc, SystemExit)
    if exc is not None:
        return False
    _, vis, keep = ref
    if sorted(api.namespaces) != old['ns']:
        return False
    for n, ns in api.namespaces.items():
        if list(ns.data_types) != old['types'][n]:
            return False
        if len(ns.routes) != len(vis[n]) or any(a is not b for a, b in zip(ns.routes, vis[n])):
            return False
        # by-name tables are exactly the tables of the visible list
        want1 = dict((r.name, r) for r in vis[n] if r.version == 1)
        if set(ns.route_by_name) != set(want1) or any(ns.route_by_name[k] is not want1[k] for k in want1):
            return False
        names = set(r.name for r in vis[n])
        if set(ns.routes_by_name) != names:
            return False
        for nm in names:
            want = dict((r.version, r) for r in vis[n] if r.name == nm)
            got = ns.routes_by_name[nm].at_version
            if set(got) != set(want) or any(got[v] is not want[v] for v in want):
                return False
        for r in ns.routes:
            was = old['attrs'][id(r)]
            if set(r.attrs) != set(k for k in was if k in keep):
                return False
            if any(r.attrs[k] is not was[k] and r.attrs[k] != was[k] for k in r.attrs):
                return False
    if [f.name for f in api.route_schema.fields] != keep:
        return False
    if sorted(api.route_schema._fields_by_name) != sorted(keep):
        return False
    return True


def gen(rng):
    f = None
    r = rng.random()
    if r < 0.75:
        f = render(rand_expr(rng), rng)
        if rng.random() < 0.2:
            f = malform(f, rng)
    def subset(pool, extra):
        if rng.random() < 0.4:
            return None
        s = [x for x in pool if rng.random() < 0.5]
        if rng.random() < 0.1:
            s.append(extra)
        rng.shuffle(s)
        return s
    w = subset(NS_NAMES, 'nosuchns')
    b = subset(NS_NAMES, 'missing')
    a = subset(ATTR_NAMES, 'nosuchattr')
    if a is not None and rng.random() < 0.15:
        a.append(':all')
    call = lambda fn, *args: {'k': 'call', 'fn': fn, 'args': list(args)}
    return {'args': call('spec.cli_gen:build_args', f, w, b, a), 'api': call('spec.cli_gen:build_api'),
            'debug': {'k': 'bool', 'v': False}}
