"""Native-only: two versions of a spec (B = A + changes the evolution guide lists as backwards compatible),
values, and the independent A-view projection of B's messages (C07)."""
import spec.corpus as corpus
import stone.backends.python_rsrc.stone_validators as bv
import stone.backends.python_rsrc.stone_base as bb

A = {'ev': '''namespace ev

struct Leaf
    n Int32

struct S
    a String
    b Int32?
    leaf Leaf?

union U
    u1
    u_void
    u_void2
    u_void3
    u2 String
    us S

union U2 extends U
    x1
    x2 Int32

union_closed UC
    c1
    c2 Int64

struct Base
    union
        s1 Sub1
    x Int32

struct Sub1 extends Base
    y String?

struct Holder
    s S
    u U
    us List(U)
    b Base
    m Map(String, S)?
    uc UC?
    ux U2?

route r(Holder, Void, Void)
'''}

B = {'ev': '''namespace ev

alias Name = String

struct Leaf
    n Int32
    extra List(String)?

struct S
    a Name
    b Int32?
    leaf Leaf?
    c String?
    d Int32 = 7

union U
    u1
    u_void Int32?
    u_void2 Leaf
    u_void3 S?
    u2 String
    us S
    u3 Leaf
    u4

union U2 extends U
    x1
    x2 Int32
    x3 String
    x4

union_closed UC
    c1
    c2 Int64

struct Base
    union
        s1 Sub1
        s2 Sub2
    x Int32

struct Sub1 extends Base
    y String?

struct Sub2 extends Base
    z Leaf?

struct Holder
    s S
    u U
    us List(U)
    b Base
    m Map(String, S)?
    uc UC?
    ux U2?
    h_new Boolean = false

route r(Holder, Void, Void)

route r_new(S, U, Void)
'''}

TYPES = ['Holder', 'S', 'U', 'U2', 'Base', 'Leaf']
# the open unions of the spec text above (`union`, not `union_closed`): a reader that does not know a tag reads
# the documented catch-all `other` -- taken from the spec text, not from the generated class
OPEN_UNIONS = {'U', 'U2'}


def mods():
    return corpus.compile_package(A, 'evA')['ev'], corpus.compile_package(B, 'evB')['ev']


def validator(version, name):
    a, b = mods()
    return getattr(a if version == 'A' else b, name + '_validator')


def build_validator(version, name):
    return validator(version, name)


def build_value(version, name, seed):
    """a valid value of the given type of version A or B"""
    import random
    import spec.gen as G
    import spec.runtime as S
    rng = random.Random(seed)
    t = validator(version, name)
    for _ in range(200):
        v = G.gen_gvalue(rng, t)
        try:
            import contracts.entrypoints as EP
            if S.enc_pre(t, v) and S.valid(t, v) and S.enc_ok(t, v) and EP.rt_domain(t, v):
                return v        # (rt_domain: no catch-all tag, no subclass instance in a plain position)
        except Exception:
            continue
    raise ValueError('no valid value generated for %s %s seed %d' % (version, name, seed))


# ---------------------------------------------------------------- the A-view of a message of B (reference)

def project(t, j, unknown):
    """what a reader that knows only validator tree `t` (version A) makes of document j: unknown fields dropped,
    unknown tags read as the catch-all, payloads of tags it knows as Void ignored, unknown subtypes read as the
    base struct.  `unknown` collects what the reader did not know (strict mode must refuse iff non-empty)."""
    if isinstance(t, bv.Nullable):
        return None if j is None else project(t.validator, j, unknown)
    if isinstance(t, bv.List):
        return [project(t.item_validator, x, unknown) for x in j]
    if isinstance(t, bv.Map):
        return dict((k, project(t.value_validator, x, unknown)) for k, x in j.items())
    if isinstance(t, bv.StructTree):
        tag = j.get('.tag')
        if (tag,) in t.definition._tag_to_subtype_:
            sub = t.definition._tag_to_subtype_[(tag,)]
            out = project_struct(sub, j, unknown)
            out['.tag'] = tag
            return out
        unknown.append('subtype %r' % (tag,))
        return project_struct(t, dict((k, x) for k, x in j.items() if k != '.tag'), unknown, base=True)
    if isinstance(t, bv.Struct):
        return project_struct(t, j, unknown)
    if isinstance(t, bv.Union):
        if isinstance(j, str):
            j = {'.tag': j}
        tag = j['.tag']
        tm = t.definition._tagmap
        if tag not in tm:
            unknown.append('tag %r' % (tag,))
            return {'.tag': 'other' if t.definition.__name__ in OPEN_UNIONS else None}
        tv = tm[tag]
        if isinstance(tv, bv.Void):
            if any(k != '.tag' for k in j):
                unknown.append('payload of void tag %r' % (tag,))
            return {'.tag': tag}
        inner = tv.validator if isinstance(tv, bv.Nullable) else tv
        if isinstance(inner, bv.Struct) and not isinstance(inner, bv.StructTree):
            rest = dict((k, x) for k, x in j.items() if k != '.tag')
            if isinstance(tv, bv.Nullable) and not rest:
                return {'.tag': tag}
            out = project_struct(inner, rest, unknown)
            out['.tag'] = tag
            return out
        if tag not in j:
            return {'.tag': tag}
        return {'.tag': tag, tag: project(tv, j[tag], unknown)}
    return j


def project_struct(t, j, unknown, base=False):
    out = {}
    names = set(n for n, _ in t.definition._all_fields_)
    for k in j:
        if k not in names and k != '.tag':
            unknown.append('field %r' % (k,))
    for n, fv in t.definition._all_fields_:
        if n in j:
            out[n] = project(fv, j[n], unknown)
    return out
