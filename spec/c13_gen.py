"""Native-only scenario builders and the reference for C13 (omitted fields / redaction) at the string
entry points json_encode / json_decode.  The reference is written from the property statement: it
walks the *value* with the per-permission reflection tables of the generated classes and says which
keys must be absent / present and which clear texts must not occur anywhere in the output."""
import json
import random

import stone.backends.python_rsrc.stone_base as bb
import stone.backends.python_rsrc.stone_validators as bv
import stone.backends.python_rsrc.stone_serializers as ss

PERMS = ['internal', 'alpha']


class Caller(ss.CallerPermissionsInterface):
    def __init__(self, permissions):
        self._permissions = list(permissions)

    @property
    def permissions(self):
        return self._permissions


def build_caller(perms):
    return None if perms is None else Caller(perms)


def _perms_of(caller):
    return [] if caller is None else list(caller.permissions)


# ---------------------------------------------------------------- values with unique clear texts

class _Ctr:
    def __init__(self, rng):
        self.rng = rng
        self.n = 0

    def text(self, hint):
        self.n += 1
        return 'CLEAR%04dx%s' % (self.n, hint)

    def number(self):
        self.n += 1
        return 7000000000000 + self.n * 1009


def gen_value(t, c, depth=0, hint='v'):
    rng = c.rng
    if isinstance(t, bv.Nullable):
        if rng.random() < 0.25:
            return None
        return gen_value(t.validator, c, depth, hint)
    if isinstance(t, bv.List):
        return [gen_value(t.item_validator, c, depth + 1, hint) for _ in range(rng.randrange(0, 3))]
    if isinstance(t, bv.Map):
        return dict(('k%d' % i, gen_value(t.value_validator, c, depth + 1, hint)) for i in range(rng.randrange(0, 3)))
    if isinstance(t, bv.String):
        s = c.text(hint)
        return ('keep-' + s) if rng.random() < 0.3 else s
    if isinstance(t, bv.Integer):
        return c.number()
    if isinstance(t, bv.StructTree):
        # a value under enumerated subtypes is an instance of one of the listed leaf subtypes
        leafs = sorted((k for k, (tags, sub) in t.definition._pytype_to_tag_and_subtype_.items()
                        if not isinstance(sub, bv.StructTree)), key=lambda k: k.__name__)
        return gen_struct(rng.choice(leafs), c, depth + 1, exact=True)
    if isinstance(t, bv.Struct):
        return gen_struct(t.definition, c, depth + 1)
    if isinstance(t, bv.Union):
        return gen_union(t.definition, c, depth + 1)
    if isinstance(t, bv.Void):
        return None
    raise TypeError('no generator for %r' % (t,))


def gen_struct(cls, c, depth, exact=False):
    subs = [k for k in cls.__subclasses__()] if depth < 3 and not exact and c.rng.random() < 0.3 else []
    if subs:
        cls = c.rng.choice(subs)
    o = cls()
    # fields and their validators are taken from the IR and the per-field descriptors, not from the
    # generated per-permission tables (those are part of what is being checked)
    for f in _ir()[cls].all_fields:
        fv = getattr(cls, f.name).validator
        if isinstance(fv, bv.Nullable) and (c.rng.random() < 0.3 or depth >= 3):
            continue
        setattr(o, f.name, gen_value(fv, c, depth, f.name))
    return o


def gen_union(cls, c, depth):
    import stone.ir.data_types as ird
    dt = _ir()[cls]
    fields = [f for f in dt.all_fields if f.name != cls._catch_all]      # naming the catch-all is refused (C06)
    f = c.rng.choice(sorted(fields, key=lambda x: x.name))
    if isinstance(f.data_type, ird.Void):
        return cls(f.name)
    tv = getattr(cls, '_%s_validator' % f.name)
    return cls(f.name, gen_value(tv, c, depth, f.name))


def build_value(expr, seed):
    import spec.corpus as corpus
    t = eval(expr, corpus.namespace())
    return gen_value(t, _Ctr(random.Random(seed)))


def build_type(expr):
    import spec.corpus as corpus
    return eval(expr, corpus.namespace())


# ---------------------------------------------------------------- the reference (driven by the IR, not by the generated tables)

def _ir():
    """python class -> IR data type, for the annotated corpus namespaces"""
    import spec.corpus as corpus
    if 'map' not in _IR:
        from stone.backends.python_helpers import fmt_class
        api = corpus.api()
        mods = corpus.namespace()
        m = {}
        for nsname, ns in api.namespaces.items():
            if nsname not in mods:
                continue
            for dt in ns.data_types:
                cls = getattr(mods[nsname], fmt_class(dt.name), None)
                if cls is not None:
                    m[cls] = dt
        _IR['map'] = m
    return _IR['map']


_IR = {}


def ir_of_validator(t):
    """the IR type a top-level corpus validator stands for"""
    if isinstance(t, (bv.Struct, bv.Union)):
        return _ir()[t.definition]
    raise TypeError('no IR type for %r' % (t,))


def leaves(v):
    """the clear texts of a value: every string, and the decimal text of every number, at any depth"""
    if isinstance(v, str):
        return [v[5:]] if v.startswith('keep-') else [v]      # the configured regex keeps the group `keep-`
    if isinstance(v, bool) or v is None:
        return []
    if isinstance(v, (int, float)):
        return [str(v)]
    if isinstance(v, (list, tuple)):
        return [x for i in v for x in leaves(i)]
    if isinstance(v, dict):
        return [x for i in v.values() for x in leaves(i)]
    return []


def _visible(f, perms):
    return f.omitted_caller is None or f.omitted_caller in perms


def _struct_ir(dt, v):
    """the IR struct whose fields describe value v in a position declared as dt: the declared type, or -- under
    enumerated subtypes -- the type of the value's own class"""
    import stone.ir.data_types as ird
    if dt.has_enumerated_subtypes() or any(p.has_enumerated_subtypes() for p in _parents(dt)):
        return _ir().get(type(v), dt)
    return dt


def _parents(dt):
    out = []
    p = dt.parent_type
    while p is not None:
        out.append(p)
        p = p.parent_type
    return out


def uses_forbidden(dt, v, perms):
    """does the value use, anywhere a caller with `perms` can see, a union tag that is omitted for them"""
    import stone.ir.data_types as ird
    if v is None:
        return False
    if isinstance(dt, ird.Alias):
        return uses_forbidden(dt.data_type, v, perms)
    if isinstance(dt, ird.Nullable):
        return uses_forbidden(dt.data_type, v, perms)
    if isinstance(dt, ird.List):
        return any(uses_forbidden(dt.data_type, x, perms) for x in v)
    if isinstance(dt, ird.Map):
        return any(uses_forbidden(dt.value_data_type, x, perms) for x in v.values())
    if isinstance(dt, ird.Struct):
        for f in _struct_ir(dt, v).all_fields:
            if not _visible(f, perms):
                continue
            x = getattr(v, '_%s_value' % f.name)
            if x is not bb.NOT_SET and uses_forbidden(f.data_type, x, perms):
                return True
        return False
    if isinstance(dt, ird.Union):
        for f in dt.all_fields:
            if f.name == v._tag:
                if not _visible(f, perms):
                    return True
                return uses_forbidden(f.data_type, v._value, perms)
    return False


def check_encoding(dt, v, j, perms, redact, problems, path='$', redacted_here=False):
    """j is the JSON produced for value v of IR type dt"""
    import stone.ir.data_types as ird
    if isinstance(dt, ird.Alias):
        return check_encoding(dt.data_type, v, j, perms, redact, problems, path,
                              redacted_here or dt.redactor is not None)
    if redact and redacted_here:
        text = json.dumps(j)
        for clear in leaves(v):
            if clear and clear in text:
                problems.append('%s: clear text %r of a redacted value appears in %s' % (path, clear, text[:80]))
        return
    if v is None:
        return
    if isinstance(dt, ird.Nullable):
        return check_encoding(dt.data_type, v, j, perms, redact, problems, path)
    if isinstance(dt, ird.List):
        if not isinstance(j, list) or len(j) != len(v):
            problems.append('%s: list shape' % path)
            return
        for i, (x, y) in enumerate(zip(v, j)):
            check_encoding(dt.data_type, x, y, perms, redact, problems, '%s[%d]' % (path, i))
        return
    if isinstance(dt, ird.Map):
        if not isinstance(j, dict) or set(j) != set(v):
            problems.append('%s: map shape' % path)
            return
        for k in v:
            check_encoding(dt.value_data_type, v[k], j[k], perms, redact, problems, '%s[%r]' % (path, k))
        return
    if isinstance(dt, ird.Struct):
        if not isinstance(j, dict):
            problems.append('%s: struct encoded as %r' % (path, type(j).__name__))
            return
        for f in _struct_ir(dt, v).all_fields:
            x = getattr(v, '_%s_value' % f.name)
            if not _visible(f, perms):
                if f.name in j:
                    problems.append('%s.%s: field omitted for callers without %r is present'
                                    % (path, f.name, f.omitted_caller))
                continue
            if x is bb.NOT_SET or x is None:
                continue
            if f.name not in j:
                problems.append('%s.%s: field visible to this caller is missing' % (path, f.name))
                continue
            check_encoding(f.data_type, x, j[f.name], perms, redact, problems, '%s.%s' % (path, f.name),
                           f.redactor is not None)
        return
    if isinstance(dt, ird.Union):
        for f in dt.all_fields:
            if f.name != v._tag:
                continue
            if isinstance(f.data_type, ird.Void) or v._value is None:
                return
            inner = f.data_type
            while isinstance(inner, (ird.Alias, ird.Nullable)):
                inner = inner.data_type
            if isinstance(inner, ird.Struct) and not inner.has_enumerated_subtypes():
                return check_encoding(f.data_type, v._value, j, perms, redact, problems, '%s<%s>' % (path, v._tag),
                                      f.redactor is not None)
            if isinstance(j, dict) and v._tag in j:
                return check_encoding(f.data_type, v._value, j[v._tag], perms, redact, problems,
                                      '%s<%s>' % (path, v._tag), f.redactor is not None)
            problems.append('%s: union member value missing' % path)
        return


def check_json_encode(data_type, obj, caller, should_redact, result, exc):
    perms = _perms_of(caller)
    dt = ir_of_validator(data_type)
    if uses_forbidden(dt, obj, perms):
        # a tag omitted for this caller cannot be encoded for them at all: refusing is the only correct outcome
        return exc is bv.ValidationError
    if exc is not None:
        return False
    problems = []
    check_encoding(dt, obj, json.loads(result), perms, bool(should_redact), problems)
    return not problems


def explain_json_encode(data_type, obj, caller, should_redact, result):
    problems = []
    check_encoding(ir_of_validator(data_type), obj, json.loads(result), _perms_of(caller), bool(should_redact), problems)
    return problems


TYPES = ['cpc.P_validator', 'cpc.Q_validator', 'cpc.R_validator', 'cpc.Tagged_validator', 'cpc.G3_validator',
         'cpc.G2_validator', 'cpc.E1_validator', 'cpc.Holder13_validator']


def gen_encode(rng):
    call = lambda fn, *args: {'k': 'call', 'fn': fn, 'args': list(args)}
    expr = rng.choice(TYPES)
    perms = rng.choice([None, [], ['internal'], ['alpha'], ['internal', 'alpha'], ['alpha', 'internal']])
    return {'data_type': call('spec.c13_gen:build_type', expr),
            'obj': call('spec.c13_gen:build_value', expr, rng.randrange(10 ** 6)),
            'caller_permissions': call('spec.c13_gen:build_caller', perms),
            'should_redact': {'k': 'bool', 'v': rng.random() < 0.6}}


# ---------------------------------------------------------------- decoding: omitted fields cannot be supplied

def build_document(expr, seed, inject):
    """the full-permission encoding of a generated value; `inject` adds one field / uses one tag that is
    omitted for some permission (chosen by seed) when the value does not carry one already"""
    import spec.corpus as corpus
    t = eval(expr, corpus.namespace())
    v = gen_value(t, _Ctr(random.Random(seed)))
    return ss.json_encode(t, v, Caller(PERMS))


def supplied_omitted(dt, j, perms):
    """does document j supply, anywhere a caller with `perms` can reach, a field or tag that is omitted for them
    (IR-driven; plain struct positions and union members; enumerated subtypes are resolved by their tag)"""
    import stone.ir.data_types as ird
    if isinstance(dt, (ird.Alias, ird.Nullable)):
        return j is not None and supplied_omitted(dt.data_type, j, perms)
    if isinstance(dt, ird.List):
        return isinstance(j, list) and any(supplied_omitted(dt.data_type, x, perms) for x in j)
    if isinstance(dt, ird.Map):
        return isinstance(j, dict) and any(supplied_omitted(dt.value_data_type, x, perms) for x in j.values())
    if not isinstance(j, dict):
        return False
    if isinstance(dt, ird.Struct):
        if dt.has_enumerated_subtypes():
            tag = j.get('.tag')
            for sub in dt.get_enumerated_subtypes():
                if sub.name == tag:
                    return supplied_omitted_fields(sub.data_type, j, perms)
            return False
        return supplied_omitted_fields(dt, j, perms)
    if isinstance(dt, ird.Union):
        tag = j.get('.tag')
        for f in dt.all_fields:
            if f.name != tag:
                continue
            if not _visible(f, perms):
                return True
            inner = f.data_type
            while isinstance(inner, (ird.Alias, ird.Nullable)):
                inner = inner.data_type
            if isinstance(inner, ird.Struct) and not inner.has_enumerated_subtypes():
                return supplied_omitted(inner, dict((k, x) for k, x in j.items() if k != '.tag'), perms)
            if tag in j:
                return supplied_omitted(f.data_type, j[tag], perms)
        return False
    return False


def supplied_omitted_fields(dt, j, perms):
    for f in dt.all_fields:
        if not _visible(f, perms):
            if f.name in j:
                return True
        elif f.name in j and supplied_omitted(f.data_type, j[f.name], perms):
            return True
    return False


def check_json_decode(data_type, text, caller, result, exc):
    perms = _perms_of(caller)
    j = json.loads(text)
    if supplied_omitted(ir_of_validator(data_type), j, perms):
        return exc is bv.ValidationError
    # everything in the document is visible to this caller: it decodes, and what it says is there
    if exc is not None:
        return False
    return json.loads(ss.json_encode(data_type, result, Caller(PERMS))) == j


def gen_decode(rng):
    call = lambda fn, *args: {'k': 'call', 'fn': fn, 'args': list(args)}
    expr = rng.choice(TYPES)
    perms = rng.choice([None, [], ['internal'], ['alpha'], ['internal', 'alpha']])
    return {'data_type': call('spec.c13_gen:build_type', expr),
            'serialized_obj': call('spec.c13_gen:build_document', expr, rng.randrange(10 ** 6), True),
            'caller_permissions': call('spec.c13_gen:build_caller', perms)}
