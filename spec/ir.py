"""SpecPy for stone/ir/data_types.py: what the language reference says a
literal (default / example value / route attribute) must satisfy for each
primitive type, and what the type constructors accept as arguments."""
import math
import numbers
import re

from pyvc.contract import spec, Ret, Raise, implies
import spec.runtime as S

import stone.ir.data_types as ir
from stone.frontend.exception import InvalidSpec


# ------------------------------------------------------------ constructor results

def ir_int_params_ok(t):
    """what _BoundedInteger.__init__ establishes"""
    return ((t.min_value is None or (S.is_integral(t.min_value) and t.min_value >= t.minimum))
            and (t.max_value is None or (S.is_integral(t.max_value) and t.max_value <= t.maximum)))


def ir_float_params_ok(t):
    return ((t.min_value is None or (isinstance(t.min_value, float)
                                     and not (t.minimum is not None and t.min_value < t.minimum)))
            and (t.max_value is None or (isinstance(t.max_value, float)
                                         and not (t.maximum is not None and t.max_value > t.maximum))))


def ir_string_params_ok(t):
    return (S.opt_int_ge(t.min_length, 0) and S.opt_int_ge(t.max_length, 1)
            and ((not t.pattern and t.pattern_re is None)
                 or (bool(t.pattern) and isinstance(t.pattern, str)
                     and t.pattern_re == S.whole_string_pattern(t.pattern))))


# ------------------------------------------------------------ literal acceptance (lang_ref.rst)

def ir_int_accepts(t, v):
    """an integer inside the type's range and the declared min_value/max_value"""
    return (S.is_integral(v) and t.minimum <= v and v <= t.maximum
            and (t.min_value is None or t.min_value <= v)
            and (t.max_value is None or v <= t.max_value))


def ir_float_accepts(t, v):
    """a real number that is a finite double inside the type's range and the
    declared bounds (integer literals are allowed for floats)"""
    return (S.is_real(v) and S.float_convertible(v) and ir_float_in_range(t, float(v)))


def ir_float_in_range(t, f):
    return (not math.isnan(f) and not math.isinf(f)
            and (t.minimum is None or t.minimum <= f) and (t.maximum is None or f <= t.maximum)
            and (t.min_value is None or not (f < t.min_value))
            and (t.max_value is None or not (f > t.max_value)))


def ir_string_accepts(t, v):
    """a string within the declared length bounds that matches the pattern"""
    return (isinstance(v, str)
            and (t.max_length is None or len(v) <= t.max_length)
            and (t.min_length is None or len(v) >= t.min_length)
            and (not t.pattern or S.whole_string_pattern(t.pattern).match(v) is not None))


def ir_bytes_accepts(v):
    return isinstance(v, (bytes, str))


def ir_boolean_accepts(v):
    return isinstance(v, bool)


def check_outcome(ok):
    if ok:
        return Ret(None)
    return Raise(ValueError)


def example_outcome(ok):
    if ok:
        return Ret(None)
    return Raise(InvalidSpec)


def grammar_value(v):
    """Values the parser can deliver as a literal (default, example value,
    attribute): never a tuple or bytes (DESIGN: kinds derived from the grammar
    docstrings of the parser actions)."""
    return not isinstance(v, (tuple, bytes)) and v is not S.NOT_SET


# ------------------------------------------------------------ type arguments (lang_ref.rst, "Primitive types" table)
# What the language reference lets a spec write as arguments of a primitive / list / map type.  A constructor
# call with anything else must be refused with ParameterError (which the IR generator turns into a spec error);
# no other exception may leave the constructor (C03).

def ir_int_args_ok(t, lo, hi):
    """min_value / max_value: integers inside the range of the integer type"""
    return ((lo is None or (S.is_integral(lo) and lo >= t.minimum))
            and (hi is None or (S.is_integral(hi) and hi <= t.maximum)))


def ir_float_bound_ok_lo(t, x):
    return x is None or (S.is_real(x) and S.float_convertible(x)
                         and not (t.minimum is not None and S.as_float(x) < t.minimum))


def ir_float_bound_ok_hi(t, x):
    return x is None or (S.is_real(x) and S.float_convertible(x)
                         and not (t.maximum is not None and S.as_float(x) > t.maximum))


def ir_float_args_ok(t, lo, hi):
    """min_value / max_value: real numbers representable as a double, inside the range of the float type"""
    return ir_float_bound_ok_lo(t, lo) and ir_float_bound_ok_hi(t, hi)


def ir_string_args_ok(lo, hi, pattern):
    """min_length >= 0, max_length >= 1, max_length >= min_length, pattern a regular expression"""
    return (S.opt_int_ge(lo, 0) and S.opt_int_ge(hi, 1)
            and (not lo or not hi or hi >= lo)
            and (not pattern or (isinstance(pattern, str) and S.pattern_compiles(r"\A(?:" + pattern + r")\Z"))))


def ir_list_args_ok(lo, hi):
    """min_items >= 0, max_items >= 1, max_items >= min_items"""
    return (S.opt_int_ge(lo, 0) and S.opt_int_ge(hi, 1)
            and (not lo or not hi or hi >= lo))


def param_outcome(ok):
    if ok:
        return Ret(None)
    return Raise(ir.ParameterError)


def ir_list_accepts_container(t, v):
    """an example value for a list: a list within the declared item counts"""
    return (isinstance(v, list)
            and (t.max_items is None or len(v) <= t.max_items)
            and (t.min_items is None or len(v) >= t.min_items))
