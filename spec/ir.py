"""SpecPy for stone/ir/data_types.py: what the language reference says a
literal (default / example value / route attribute) must satisfy for each
primitive type, and what the type constructors accept as arguments."""
import math
import numbers
import re

from pyvc.contract import spec, Ret, Raise, implies
import spec.runtime as S

import stone.ir.data_types as ir
from stone.frontend.exception import InvalidSpec


# ------------------------------------------------------------ constructor results

def ir_int_params_ok(t):
    """what _BoundedInteger.__init__ establishes"""
    return ((t.min_value is None or (S.is_integral(t.min_value) and t.min_value >= t.minimum))
            and (t.max_value is None or (S.is_integral(t.max_value) and t.max_value <= t.maximum)))


def ir_float_params_ok(t):
    return ((t.min_value is None or (isinstance(t.min_value, float)
                                     and not (t.minimum is not None and t.min_value < t.minimum)))
            and (t.max_value is None or (isinstance(t.max_value, float)
                                         and not (t.maximum is not None and t.max_value > t.maximum))))


def ir_string_params_ok(t):
    return (S.opt_int_ge(t.min_length, 0) and S.opt_int_ge(t.max_length, 1)
            and ((not t.pattern and t.pattern_re is None)
                 or (bool(t.pattern) and isinstance(t.pattern, str)
                     and t.pattern_re == S.whole_string_pattern(t.pattern))))


# ------------------------------------------------------------ literal acceptance (lang_ref.rst)

def ir_int_accepts(t, v):
    """an integer inside the type's range and the declared min_value/max_value"""
    return (S.is_integral(v) and t.minimum <= v and v <= t.maximum
            and (t.min_value is None or t.min_value <= v)
            and (t.max_value is None or v <= t.max_value))


def ir_float_accepts(t, v):
    """a real number that is a finite double inside the type's range and the
    declared bounds (integer literals are allowed for floats)"""
    return (S.is_real(v) and S.float_convertible(v) and ir_float_in_range(t, float(v)))


def ir_float_in_range(t, f):
    return (not math.isnan(f) and not math.isinf(f)
            and (t.minimum is None or t.minimum <= f) and (t.maximum is None or f <= t.maximum)
            and (t.min_value is None or not (f < t.min_value))
            and (t.max_value is None or not (f > t.max_value)))


def ir_string_accepts(t, v):
    """a string within the declared length bounds that matches the pattern"""
    return (isinstance(v, str)
            and (t.max_length is None or len(v) <= t.max_length)
            and (t.min_length is None or len(v) >= t.min_length)
            and (not t.pattern or S.whole_string_pattern(t.pattern).match(v) is not None))


def ir_bytes_accepts(v):
    return isinstance(v, (bytes, str))


def ir_boolean_accepts(v):
    return isinstance(v, bool)


def check_outcome(ok):
    if ok:
        return Ret(None)
    return Raise(ValueError)


def example_outcome(ok):
    if ok:
        return Ret(None)
    return Raise(InvalidSpec)


def grammar_value(v):
    """Values the parser can deliver as a literal (default, example value,
    attribute): never a tuple or bytes (DESIGN: kinds derived from the grammar
    docstrings of the parser actions)."""
    return not isinstance(v, (tuple, bytes))
