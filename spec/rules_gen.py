"""Native-only: a catalogue of language-rule violations injected into rendered models (C01).  Every
injector takes a model (spec/model_gen.py) and returns a modified copy that violates exactly one rule of
docs/lang_ref.rst at one applicable site, or None when the model has no such site."""
import copy

import spec.model_gen as MG


def _ns(rng, m):
    return rng.choice(m['namespaces'])


def undefined_type(rng, m):
    ns = _ns(rng, m)
    cands = [f for s in ns['structs'] for f in s['fields']]
    if not cands:
        return None
    rng.choice(cands)['type'] = {'k': 'ref', 'ns': ns['name'], 'name': 'NoSuchType', 'kind': 'struct'}
    return 'reference to an undefined type'


def duplicate_type_name(rng, m):
    ns = _ns(rng, m)
    if not ns['structs']:
        return None
    s = copy.deepcopy(rng.choice(ns['structs']))
    s['parent'] = None
    for f in s['fields']:
        f['name'] = 'dup_' + f['name']
    ns['structs'].append(s)
    return 'two definitions with the same name in one namespace'


def duplicate_field(rng, m):
    ns = _ns(rng, m)
    cands = [s for s in ns['structs'] if s['fields']]
    if not cands:
        return None
    s = rng.choice(cands)
    s['fields'].append(copy.deepcopy(rng.choice(s['fields'])))
    return 'a struct declares the same field twice'


def field_clashes_with_inherited(rng, m):
    ns = _ns(rng, m)
    by = dict((s['name'], s) for s in ns['structs'])
    cands = [s for s in ns['structs'] if s['parent'] and by[s['parent']]['fields']]
    if not cands:
        return None
    s = rng.choice(cands)
    s['fields'].append(copy.deepcopy(rng.choice(by[s['parent']]['fields'])))
    return 'a field redeclares a field of the parent struct'


def duplicate_tag(rng, m):
    ns = _ns(rng, m)
    if not ns['unions']:
        return None
    u = rng.choice(ns['unions'])
    u['tags'].append(copy.deepcopy(rng.choice(u['tags'])))
    return 'a union declares the same tag twice'


def tag_clashes_with_parent(rng, m):
    ns = _ns(rng, m)
    by = dict((u['name'], u) for u in ns['unions'])
    cands = [u for u in ns['unions'] if u['parent']]
    if not cands:
        return None
    u = rng.choice(cands)
    u['tags'].append(copy.deepcopy(rng.choice(by[u['parent']]['tags'])))
    return 'a tag redeclares a tag of the parent union'


def struct_extends_union(rng, m):
    ns = _ns(rng, m)
    if not ns['structs'] or not ns['unions']:
        return None
    cands = [s for s in ns['structs'] if not s['parent']]
    if not cands:
        return None
    rng.choice(cands)['parent'] = rng.choice(ns['unions'])['name']
    return 'a struct extends a union'


def union_extends_struct(rng, m):
    ns = _ns(rng, m)
    if not ns['structs'] or not ns['unions']:
        return None
    rng.choice(ns['unions'])['parent'] = rng.choice(ns['structs'])['name']
    return 'a union extends a struct'


def extends_undefined(rng, m):
    ns = _ns(rng, m)
    if not ns['structs']:
        return None
    rng.choice(ns['structs'])['parent'] = 'NoSuchParent'
    return 'a struct extends an undefined type'


def closed_extends_open(rng, m):
    ns = _ns(rng, m)
    opens = [u for u in ns['unions'] if not u['closed']]
    if not opens:
        return None
    ns['unions'].append({'name': 'ClosedChild', 'closed': True, 'parent': rng.choice(opens)['name'],
                         'tags': [{'name': 'cc_t0', 'type': None, 'nullable': False, 'doc': None}], 'doc': None})
    return 'a closed union extends an open union'


def inheritance_cycle(rng, m):
    ns = _ns(rng, m)
    roots = [s for s in ns['structs'] if not s['parent']]
    kids = [s for s in ns['structs'] if s['parent']]
    if not roots or not kids:
        return None
    k = rng.choice(kids)
    root = k
    by = dict((s['name'], s) for s in ns['structs'])
    while root['parent']:
        root = by[root['parent']]
    root['parent'] = k['name']
    return 'circular struct inheritance'


def default_of_wrong_kind(rng, m):
    cands = [f for ns in m['namespaces'] for s in ns['structs'] for f in s['fields']
             if f['default'] and f['type']['k'] == 'prim']
    if not cands:
        return None
    f = rng.choice(cands)
    f['default'] = '"text"' if f['type']['name'] != 'String' else '3'
    return 'a default whose literal does not fit the field type'


def default_out_of_bounds(rng, m):
    cands = [f for ns in m['namespaces'] for s in ns['structs'] for f in s['fields']
             if not f['nullable'] and f['type']['k'] == 'prim' and f['type']['name'] in ('UInt32', 'Int32', 'UInt64')]
    if not cands:
        return None
    f = rng.choice(cands)
    f['default'] = {'UInt32': '-1', 'Int32': '2147483648', 'UInt64': '-5'}[f['type']['name']]
    return 'a default outside the bounds of the integer type'


def void_field(rng, m):
    ns = _ns(rng, m)
    cands = [s for s in ns['structs'] if s['fields']]
    if not cands:
        return None
    f = rng.choice(rng.choice(cands)['fields'])
    f['type'] = {'k': 'prim', 'name': 'Void', 'params': {}}
    f['default'] = None
    return 'a struct field of type Void'


def bad_type_argument(rng, m):
    cands = [f for ns in m['namespaces'] for s in ns['structs'] for f in s['fields'] if f['type']['k'] == 'prim']
    if not cands:
        return None
    f = rng.choice(cands)
    f['default'] = None
    f['type'] = rng.choice([{'k': 'prim', 'name': 'String', 'params': {'min_length': 5, 'max_length': 2}},
                            {'k': 'prim', 'name': 'String', 'params': {'no_such_argument': 1}},
                            {'k': 'prim', 'name': 'UInt32', 'params': {'min_value': -1}},
                            {'k': 'prim', 'name': 'Boolean', 'params': {'min_value': 0}}])
    return 'an illegal type argument'


def list_bounds_inverted(rng, m):
    cands = [f for ns in m['namespaces'] for s in ns['structs'] for f in s['fields'] if f['type']['k'] == 'list']
    if not cands:
        return None
    f = rng.choice(cands)
    f['type']['min_items'], f['type']['max_items'] = 5, 2
    return 'a list whose min_items exceeds max_items'


def missing_import(rng, m):
    cands = [ns for ns in m['namespaces'] if ns['imports']]
    if not cands:
        return None
    rng.choice(cands)['imports'] = []
    return 'a reference into a namespace that is not imported'


def import_undefined_namespace(rng, m):
    _ns(rng, m)['imports'].append('no_such_namespace')
    return 'an import of an undefined namespace'


def duplicate_route(rng, m):
    cands = [ns for ns in m['namespaces'] if ns['routes']]
    if not cands:
        return None
    ns = rng.choice(cands)
    ns['routes'].append(copy.deepcopy(rng.choice(ns['routes'])))
    return 'two routes with the same name and version'


def route_undefined_type(rng, m):
    cands = [ns for ns in m['namespaces'] if ns['routes']]
    if not cands:
        return None
    ns = rng.choice(cands)
    rng.choice(ns['routes'])[rng.choice(['arg', 'result', 'error'])] = {'k': 'ref', 'ns': ns['name'], 'name': 'NoSuchArg', 'kind': 'struct'}
    return 'a route whose signature names an undefined type'


def route_unknown_attribute(rng, m):
    cands = [ns for ns in m['namespaces'] if ns['routes']]
    if not cands:
        return None
    rng.choice(rng.choice(cands)['routes'])['attrs']['no_such_attr'] = '1'
    return 'a route attribute that the route schema does not define'


def route_attribute_wrong_kind(rng, m):
    cands = [ns for ns in m['namespaces'] if ns['routes']]
    if not cands:
        return None
    rng.choice(rng.choice(cands)['routes'])['attrs']['beta'] = '"yes"'
    return 'a route attribute value that does not fit its declared type'


def name_clash_route_type(rng, m):
    cands = [ns for ns in m['namespaces'] if ns['routes'] and ns['structs']]
    if not cands:
        return None
    ns = rng.choice(cands)
    r = rng.choice(ns['routes'])
    ns['structs'].append({'name': r['name'], 'parent': None, 'fields': [], 'doc': None})
    return 'a data type with the name of a route'


def alias_cycle(rng, m):
    ns = _ns(rng, m)
    ns['aliases'].append({'name': 'CycA', 'type': {'k': 'ref', 'ns': ns['name'], 'name': 'CycB', 'kind': 'alias'}, 'doc': None})
    ns['aliases'].append({'name': 'CycB', 'type': {'k': 'ref', 'ns': ns['name'], 'name': 'CycA', 'kind': 'alias'}, 'doc': None})
    return 'aliases that refer to each other'


# ---- doc references (lang_ref "Documentation": :field:, :type:, :route:, :link:, :val: must be well formed
# and resolve).  The compiler validates the docs of user types, their fields / tags and routes.

def _all_field_names(ns, t, kind):
    """names of the fields / tags of a struct / union, inherited ones included"""
    by = dict((x['name'], x) for x in ns[kind])
    out = []
    seen = set()
    while t is not None and t['name'] not in seen:
        seen.add(t['name'])
        out += [f['name'] for f in t['fields' if kind == 'structs' else 'tags']]
        t = by.get(t['parent']) if t.get('parent') else None
    return out


def _doc_sites(ns):
    """(holder of a 'doc', owning type or None, 'structs' / 'unions' / None)"""
    sites = []
    for s in ns['structs']:
        sites.append((s, s, 'structs'))
        sites += [(f, s, 'structs') for f in s['fields']]
    for u in ns['unions']:
        sites.append((u, u, 'unions'))
        sites += [(t, u, 'unions') for t in u['tags']]
    sites += [(r, None, None) for r in ns['routes']]
    return sites


def _names_in_scope(m, ns):
    out = set()
    for k in ('structs', 'unions', 'aliases', 'routes'):
        out.update(x['name'] for x in ns[k])
    out.update(n['name'] for n in m['namespaces'])
    return out


def doc_ref_unknown_field(rng, m):
    """an unqualified :field: reference names a field the enclosing type does not have.  Context variation: the
    very same docstring also sits, validly, on other types of the namespace that do have the field (before
    and after the offending one)"""
    cands = [ns for ns in m['namespaces'] if ns['structs'] or ns['unions']]
    if not cands:
        return None
    ns = rng.choice(cands)
    sites = [x for x in _doc_sites(ns) if x[1] is not None]
    holder, owner, kind = rng.choice(sites)
    own = set(_all_field_names(ns, owner, kind))
    donors = []
    for k in ('structs', 'unions'):
        for t in ns[k]:
            if t is not owner:
                for n in _all_field_names(ns, t, k):
                    if n not in own:
                        donors.append((t, k, n))
    if donors and rng.random() < 0.6:
        t, k, n = rng.choice(donors)
        doc = 'See :field:`%s`.' % n
        # valid on the donor (type doc and / or one of its own field docs), invalid on `holder`
        if rng.random() < 0.7:
            t['doc'] = doc
        own_sites = t['fields' if k == 'structs' else 'tags']
        if own_sites and rng.random() < 0.5:
            rng.choice(own_sites)['doc'] = doc
        holder['doc'] = doc
    else:
        holder['doc'] = 'See :field:`nosuch_field_zz`.'
    return 'a doc reference to a field the type does not have'


def doc_ref_unknown_type(rng, m):
    ns = _ns(rng, m)
    sites = _doc_sites(ns)
    if not sites:
        return None
    holder = rng.choice(sites)[0]
    kind = rng.choice(['type', 'qualfield', 'alias', 'route_as_type'])
    if kind == 'alias' and ns['aliases']:
        holder['doc'] = 'An :type:`%s`.' % rng.choice(ns['aliases'])['name']     # not a struct or union
    elif kind == 'route_as_type' and ns['routes']:
        holder['doc'] = 'An :type:`%s`.' % rng.choice(ns['routes'])['name']
    elif kind == 'qualfield':
        holder['doc'] = 'See :field:`NoSuchTypeZz.f`.'
    else:
        holder['doc'] = 'See :type:`NoSuchTypeZz`.'
    return 'a doc reference to an undefined type (or to something that is not a struct or union)'


def doc_ref_unknown_route(rng, m):
    ns = _ns(rng, m)
    sites = _doc_sites(ns)
    if not sites:
        return None
    holder = rng.choice(sites)[0]
    if ns['routes'] and rng.random() < 0.5:
        r = rng.choice(ns['routes'])
        v = max(x['version'] for x in ns['routes'] if x['name'] == r['name']) + 1
        holder['doc'] = 'See :route:`%s:%d`.' % (r['name'], v)                       # undefined version
    elif ns['structs'] and rng.random() < 0.5:
        holder['doc'] = 'See :route:`%s`.' % rng.choice(ns['structs'])['name']       # a type is not a route
    else:
        holder['doc'] = 'See :route:`no_such_route_zz`.'
    return 'a doc reference to an undefined route or route version'


def doc_ref_malformed(rng, m):
    ns = _ns(rng, m)
    sites = _doc_sites(ns)
    if not sites:
        return None
    rng.choice(sites)[0]['doc'] = rng.choice(['A :link:`nospace`.', 'A :val:`not a value`.', 'A :bogus:`x`.',
                                              'See :type:`nosuchns_zz.T`.', 'See :route:`nosuchns_zz.r`.'])
    return 'a malformed doc reference (link without title, bad value, unknown tag, unknown namespace)'


def decorate_with_valid_doc_refs(rng, m):
    """legal context: put resolvable references into some docs (must never make a legal spec refused)"""
    for ns in m['namespaces']:
        for holder, owner, kind in _doc_sites(ns):
            if rng.random() < 0.3:
                refs = ['a :val:`null` and :val:`true`', 'a :link:`Title here http://example.com/x`']
                if owner is not None:
                    names = _all_field_names(ns, owner, kind)
                    if names:
                        refs.append(':field:`%s`' % rng.choice(names))
                    refs.append(':type:`%s`' % owner['name'])
                for k in ('structs', 'unions'):
                    for t in ns[k]:
                        names = _all_field_names(ns, t, k)
                        if names:
                            refs.append(':field:`%s.%s`' % (t['name'], rng.choice(names)))
                        refs.append(':type:`%s`' % t['name'])
                for r in ns['routes']:
                    refs.append(':route:`%s`' % (r['name'] if r['version'] == 1 else '%s:%d' % (r['name'], r['version'])))
                holder['doc'] = 'See %s.' % rng.choice(refs)


CATALOGUE = [undefined_type, duplicate_type_name, duplicate_field, field_clashes_with_inherited, duplicate_tag,
             tag_clashes_with_parent, struct_extends_union, union_extends_struct, extends_undefined, closed_extends_open,
             inheritance_cycle, default_of_wrong_kind, default_out_of_bounds, void_field, bad_type_argument,
             list_bounds_inverted, missing_import, import_undefined_namespace, duplicate_route, route_undefined_type,
             route_unknown_attribute, route_attribute_wrong_kind, name_clash_route_type, alias_cycle,
             doc_ref_unknown_field, doc_ref_unknown_type, doc_ref_unknown_route, doc_ref_malformed]


class Case(list):
    """the specs argument: rendered text plus what was injected (None: a legal spec)"""
    rule = None
    model = None


def build_case(model, seed, rule_index):
    import random
    rng = random.Random(seed)
    m = copy.deepcopy(model)
    rule = None
    if rng.random() < 0.5:
        decorate_with_valid_doc_refs(rng, m)
    if rule_index is not None:
        rule = CATALOGUE[rule_index](rng, m)
    c = Case(MG.build_specs(m, seed))
    c.rule = rule
    c.model = m
    c.wanted = rule_index is not None
    return c


def build_plain(pairs, rule):
    """a hand-written case (regression witnesses)"""
    c = Case(tuple(p) for p in pairs)
    c.rule = rule
    return c
