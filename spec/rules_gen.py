"""Native-only: a catalogue of language-rule violations injected into rendered models (C01).  Every
injector takes a model (spec/model_gen.py) and returns a modified copy that violates exactly one rule of
docs/lang_ref.rst at one applicable site, or None when the model has no such site."""
import copy

import spec.model_gen as MG


def _ns(rng, m):
    return rng.choice(m['namespaces'])


def undefined_type(rng, m):
    ns = _ns(rng, m)
    cands = [f for s in ns['structs'] for f in s['fields']]
    if not cands:
        return None
    rng.choice(cands)['type'] = {'k': 'ref', 'ns': ns['name'], 'name': 'NoSuchType', 'kind': 'struct'}
    return 'reference to an undefined type'


def duplicate_type_name(rng, m):
    ns = _ns(rng, m)
    if not ns['structs']:
        return None
    s = copy.deepcopy(rng.choice(ns['structs']))
    s['parent'] = None
    for f in s['fields']:
        f['name'] = 'dup_' + f['name']
    ns['structs'].append(s)
    return 'two definitions with the same name in one namespace'


def duplicate_field(rng, m):
    ns = _ns(rng, m)
    cands = [s for s in ns['structs'] if s['fields']]
    if not cands:
        return None
    s = rng.choice(cands)
    s['fields'].append(copy.deepcopy(rng.choice(s['fields'])))
    return 'a struct declares the same field twice'


def field_clashes_with_inherited(rng, m):
    ns = _ns(rng, m)
    by = dict((s['name'], s) for s in ns['structs'])
    cands = [s for s in ns['structs'] if s['parent'] and by[s['parent']]['fields']]
    if not cands:
        return None
    s = rng.choice(cands)
    s['fields'].append(copy.deepcopy(rng.choice(by[s['parent']]['fields'])))
    return 'a field redeclares a field of the parent struct'


def duplicate_tag(rng, m):
    ns = _ns(rng, m)
    if not ns['unions']:
        return None
    u = rng.choice(ns['unions'])
    u['tags'].append(copy.deepcopy(rng.choice(u['tags'])))
    return 'a union declares the same tag twice'


def tag_clashes_with_parent(rng, m):
    ns = _ns(rng, m)
    by = dict((u['name'], u) for u in ns['unions'])
    cands = [u for u in ns['unions'] if u['parent']]
    if not cands:
        return None
    u = rng.choice(cands)
    u['tags'].append(copy.deepcopy(rng.choice(by[u['parent']]['tags'])))
    return 'a tag redeclares a tag of the parent union'


def struct_extends_union(rng, m):
    ns = _ns(rng, m)
    if not ns['structs'] or not ns['unions']:
        return None
    cands = [s for s in ns['structs'] if not s['parent']]
    if not cands:
        return None
    rng.choice(cands)['parent'] = rng.choice(ns['unions'])['name']
    return 'a struct extends a union'


def union_extends_struct(rng, m):
    ns = _ns(rng, m)
    if not ns['structs'] or not ns['unions']:
        return None
    rng.choice(ns['unions'])['parent'] = rng.choice(ns['structs'])['name']
    return 'a union extends a struct'


def extends_undefined(rng, m):
    ns = _ns(rng, m)
    if not ns['structs']:
        return None
    rng.choice(ns['structs'])['parent'] = 'NoSuchParent'
    return 'a struct extends an undefined type'


def closed_extends_open(rng, m):
    ns = _ns(rng, m)
    opens = [u for u in ns['unions'] if not u['closed']]
    if not opens:
        return None
    ns['unions'].append({'name': 'ClosedChild', 'closed': True, 'parent': rng.choice(opens)['name'],
                         'tags': [{'name': 'cc_t0', 'type': None, 'nullable': False, 'doc': None}], 'doc': None})
    return 'a closed union extends an open union'


def inheritance_cycle(rng, m):
    ns = _ns(rng, m)
    roots = [s for s in ns['structs'] if not s['parent']]
    kids = [s for s in ns['structs'] if s['parent']]
    if not roots or not kids:
        return None
    k = rng.choice(kids)
    root = k
    by = dict((s['name'], s) for s in ns['structs'])
    while root['parent']:
        root = by[root['parent']]
    root['parent'] = k['name']
    return 'circular struct inheritance'


def default_of_wrong_kind(rng, m):
    cands = [f for ns in m['namespaces'] for s in ns['structs'] for f in s['fields']
             if f['default'] and f['type']['k'] == 'prim']
    if not cands:
        return None
    f = rng.choice(cands)
    f['default'] = '"text"' if f['type']['name'] != 'String' else '3'
    return 'a default whose literal does not fit the field type'


def default_out_of_bounds(rng, m):
    cands = [f for ns in m['namespaces'] for s in ns['structs'] for f in s['fields']
             if not f['nullable'] and f['type']['k'] == 'prim' and f['type']['name'] in ('UInt32', 'Int32', 'UInt64')]
    if not cands:
        return None
    f = rng.choice(cands)
    f['default'] = {'UInt32': '-1', 'Int32': '2147483648', 'UInt64': '-5'}[f['type']['name']]
    return 'a default outside the bounds of the integer type'


def void_field(rng, m):
    ns = _ns(rng, m)
    cands = [s for s in ns['structs'] if s['fields']]
    if not cands:
        return None
    f = rng.choice(rng.choice(cands)['fields'])
    f['type'] = {'k': 'prim', 'name': 'Void', 'params': {}}
    f['default'] = None
    return 'a struct field of type Void'


def bad_type_argument(rng, m):
    cands = [f for ns in m['namespaces'] for s in ns['structs'] for f in s['fields'] if f['type']['k'] == 'prim']
    if not cands:
        return None
    f = rng.choice(cands)
    f['default'] = None
    f['type'] = rng.choice([{'k': 'prim', 'name': 'String', 'params': {'min_length': 5, 'max_length': 2}},
                            {'k': 'prim', 'name': 'String', 'params': {'no_such_argument': 1}},
                            {'k': 'prim', 'name': 'UInt32', 'params': {'min_value': -1}},
                            {'k': 'prim', 'name': 'Boolean', 'params': {'min_value': 0}}])
    return 'an illegal type argument'


def list_bounds_inverted(rng, m):
    cands = [f for ns in m['namespaces'] for s in ns['structs'] for f in s['fields'] if f['type']['k'] == 'list']
    if not cands:
        return None
    f = rng.choice(cands)
    f['type']['min_items'], f['type']['max_items'] = 5, 2
    return 'a list whose min_items exceeds max_items'


def missing_import(rng, m):
    cands = [ns for ns in m['namespaces'] if ns['imports']]
    if not cands:
        return None
    rng.choice(cands)['imports'] = []
    return 'a reference into a namespace that is not imported'


def import_undefined_namespace(rng, m):
    _ns(rng, m)['imports'].append('no_such_namespace')
    return 'an import of an undefined namespace'


def duplicate_route(rng, m):
    cands = [ns for ns in m['namespaces'] if ns['routes']]
    if not cands:
        return None
    ns = rng.choice(cands)
    ns['routes'].append(copy.deepcopy(rng.choice(ns['routes'])))
    return 'two routes with the same name and version'


def route_undefined_type(rng, m):
    cands = [ns for ns in m['namespaces'] if ns['routes']]
    if not cands:
        return None
    ns = rng.choice(cands)
    rng.choice(ns['routes'])[rng.choice(['arg', 'result', 'error'])] = {'k': 'ref', 'ns': ns['name'], 'name': 'NoSuchArg', 'kind': 'struct'}
    return 'a route whose signature names an undefined type'


def route_unknown_attribute(rng, m):
    cands = [ns for ns in m['namespaces'] if ns['routes']]
    if not cands:
        return None
    rng.choice(rng.choice(cands)['routes'])['attrs']['no_such_attr'] = '1'
    return 'a route attribute that the route schema does not define'


def route_attribute_wrong_kind(rng, m):
    cands = [ns for ns in m['namespaces'] if ns['routes']]
    if not cands:
        return None
    rng.choice(rng.choice(cands)['routes'])['attrs']['beta'] = '"yes"'
    return 'a route attribute value that does not fit its declared type'


def name_clash_route_type(rng, m):
    cands = [ns for ns in m['namespaces'] if ns['routes'] and ns['structs']]
    if not cands:
        return None
    ns = rng.choice(cands)
    r = rng.choice(ns['routes'])
    ns['structs'].append({'name': r['name'], 'parent': None, 'fields': [], 'doc': None})
    return 'a data type with the name of a route'


def alias_cycle(rng, m):
    ns = _ns(rng, m)
    ns['aliases'].append({'name': 'CycA', 'type': {'k': 'ref', 'ns': ns['name'], 'name': 'CycB', 'kind': 'alias'}, 'doc': None})
    ns['aliases'].append({'name': 'CycB', 'type': {'k': 'ref', 'ns': ns['name'], 'name': 'CycA', 'kind': 'alias'}, 'doc': None})
    return 'aliases that refer to each other'


CATALOGUE = [undefined_type, duplicate_type_name, duplicate_field, field_clashes_with_inherited, duplicate_tag,
             tag_clashes_with_parent, struct_extends_union, union_extends_struct, extends_undefined, closed_extends_open,
             inheritance_cycle, default_of_wrong_kind, default_out_of_bounds, void_field, bad_type_argument,
             list_bounds_inverted, missing_import, import_undefined_namespace, duplicate_route, route_undefined_type,
             route_unknown_attribute, route_attribute_wrong_kind, name_clash_route_type, alias_cycle]


class Case(list):
    """the specs argument: rendered text plus what was injected (None: a legal spec)"""
    rule = None
    model = None


def build_case(model, seed, rule_index):
    import random
    rng = random.Random(seed)
    m = copy.deepcopy(model)
    rule = None
    if rule_index is not None:
        rule = CATALOGUE[rule_index](rng, m)
    c = Case(MG.build_specs(m, seed))
    c.rule = rule
    c.model = m
    c.wanted = rule_index is not None
    return c


def build_plain(pairs, rule):
    """a hand-written case (regression witnesses)"""
    c = Case(tuple(p) for p in pairs)
    c.rule = rule
    return c
