"""Native generators of well-formed validator trees and of values for them
(used by the bounded oracle comparison and by the encoding cross-check; never
part of a proof)."""
import datetime

import stone.backends.python_rsrc.stone_validators as bv
from pyvc import native as N

INT_CLASSES = [bv.Int32, bv.UInt32, bv.Int64, bv.UInt64]
PATTERNS = [None, None, 'a', 'a*', '[a-z]+', 'ab|cd', '.', '', 'a$', r'\d{2}']


def _raw(cls, **slots):
    o = object.__new__(cls)
    for k, v in slots.items():
        object.__setattr__(o, k, v)
    return o


def gen_primitive(rng):
    k = rng.randrange(9)
    if k == 0:
        return bv.Boolean()
    if k == 1:
        cls = rng.choice(INT_CLASSES)
        lo, hi = cls.default_minimum, cls.default_maximum
        pool = [lo, lo + 1, hi, hi - 1, 0, 1, -1, 5, 10]
        pool = [x for x in pool if lo <= x <= hi]
        a, b = rng.choice(pool), rng.choice(pool)
        return cls(min_value=rng.choice([None, a]), max_value=rng.choice([None, b]))
    if k == 2:
        cls = rng.choice([bv.Float32, bv.Float64])
        pool = [None, -1.5, 0.0, -0.0, 1.0, 2.5, 1e30, -1e30, 3.40282e38, -3.40282e38, 5, -7]
        if cls is bv.Float64:
            pool += [1e308, -1e308, float('inf'), float('-inf'), 10 ** 30]
        return cls(min_value=rng.choice(pool), max_value=rng.choice(pool))
    if k == 3:
        lo = rng.choice([None, 0, 1, 2, 3])
        hi = rng.choice([None, 1, 2, 3, 5])
        if lo and hi and hi < lo:
            lo, hi = hi, lo
        return bv.String(min_length=lo, max_length=hi, pattern=rng.choice(PATTERNS))
    if k == 4:
        lo = rng.choice([None, 0, 1, 2])
        hi = rng.choice([None, 1, 2, 4])
        if lo is not None and hi is not None and hi < lo:
            lo, hi = hi, lo
            if hi == 0:
                hi = 1
        return bv.Bytes(min_length=lo, max_length=hi)
    if k == 5:
        return bv.Timestamp(rng.choice(['%Y-%m-%dT%H:%M:%SZ', '%Y', '%a, %d %b %Y %H:%M:%S +0000']))
    if k == 6:
        return bv.Void()
    if k == 7:
        return bv.String()
    return bv.Int64()


def gen_validator(rng, depth=0, allow_void=True, allow_nullable=True):
    r = rng.random()
    if depth >= 2 or r < 0.55:
        while True:
            t = gen_primitive(rng)
            if allow_void or not isinstance(t, bv.Void):
                return t
    if r < 0.70 and allow_nullable:
        return bv.Nullable(gen_validator(rng, depth + 1, allow_void=False, allow_nullable=False))
    if r < 0.88:
        lo = rng.choice([None, 0, 1, 2])
        hi = rng.choice([None, 1, 2, 3])
        if lo is not None and hi is not None and hi < lo:
            lo, hi = hi, lo
            if hi == 0:
                hi = 1
        inner = gen_validator(rng, depth + 1)
        while isinstance(inner, bv.Nullable) and False:
            inner = gen_validator(rng, depth + 1)
        return bv.List(inner, min_items=lo, max_items=hi)
    return bv.Map(bv.String(max_length=rng.choice([None, 2, 3])), gen_validator(rng, depth + 1))


def gen_value_for(rng, t, depth=0):
    """A value that is valid for ``t`` or one step away from valid."""
    near = rng.random() < 0.35
    if isinstance(t, bv.Boolean):
        return rng.choice([True, False]) if not near else rng.choice([0, 1, None, 'x'])
    if isinstance(t, bv.Integer):
        pool = [t.minimum, t.maximum, t.minimum - 1, t.maximum + 1, t.minimum + 1, t.maximum - 1, 0, 1, True, False]
        if near:
            pool += [0.0, 1.5, None, '1', float(t.minimum)]
        return rng.choice(pool)
    if isinstance(t, bv.Real):
        pool = [0.0, -0.0, 1.0, 1, 0, True, 1e30, -1e30, 3.40282e38, -3.40282e38, 3.4028200000000004e+38,
                -3.4028200000000004e+38, float('nan'), float('inf'), float('-inf'), 10 ** 400, -10 ** 400, 10 ** 38,
                2 ** 1024 - 2 ** 970, 2 ** 1024 - 2 ** 970 - 1]
        for b in (t.minimum, t.maximum):
            if b is not None:
                pool += [b, b + 1.0, b - 1.0]
        if near:
            pool += [None, '1.0', [1.0]]
        return rng.choice(pool)
    if isinstance(t, bv.String):
        pool = ['', 'a', 'ab', 'abc', 'aaa', 'cd', 'a\n', 'ab\n', '12', 'abcdef', 'é']
        if near:
            pool += [b'a', 1, None, ['a']]
        return rng.choice(pool)
    if isinstance(t, bv.Bytes):
        pool = [b'', b'a', b'ab', b'abc', b'abcde']
        if near:
            pool += ['a', None, 1, bytearray(b'a')]
        return rng.choice(pool)
    if isinstance(t, bv.Timestamp):
        pool = [datetime.datetime(2020, 1, 2, 3, 4, 5), datetime.datetime(1999, 12, 31, tzinfo=datetime.timezone.utc),
                datetime.datetime(2000, 1, 1, tzinfo=datetime.timezone(datetime.timedelta(hours=1))),
                datetime.datetime(2000, 1, 1, tzinfo=datetime.timezone(datetime.timedelta(hours=-5)))]
        if near:
            pool += ['2020', None, 1, datetime.date(2020, 1, 1)]
        return rng.choice(pool)
    if isinstance(t, bv.Void):
        return None if not near else rng.choice([0, '', False, []])
    if isinstance(t, bv.Nullable):
        if rng.random() < 0.3:
            return None
        return gen_value_for(rng, t.validator, depth + 1)
    if isinstance(t, bv.List):
        n = rng.choice([0, 1, 2, 3, 4])
        items = [gen_value_for(rng, t.item_validator, depth + 1) for _ in range(n)]
        r = rng.random()
        if r < 0.2:
            return tuple(items)
        if near and r < 0.3:
            return rng.choice([None, 'ab', {}, 3])
        return items
    if isinstance(t, bv.Map):
        n = rng.choice([0, 1, 2])
        d = {}
        for _ in range(n):
            k = gen_value_for(rng, t.key_validator, depth + 1) if rng.random() < 0.9 else 1
            if isinstance(k, (list, dict)):
                k = 'a'
            d[k] = gen_value_for(rng, t.value_validator, depth + 1)
        if near and rng.random() < 0.2:
            return rng.choice([None, [], 'a'])
        return d
    return None


def gen_of_class(rng, cls, proper=False):
    """A well-formed validator whose class is ``cls`` (or a subclass)."""
    for _ in range(10000):
        t = gen_validator(rng, rng.choice([0, 0, 1, 2]))
        if isinstance(t, cls) and not (proper and type(t) is cls):
            return t
    raise RuntimeError('no validator of class %s generated' % cls)


def desc_value(v):
    """Description of an arbitrary generated value (datetimes keep their tz)."""
    if isinstance(v, datetime.datetime):
        if v.tzinfo is None:
            return {'k': 'datetime', 'tz': 'VNone'}
        return {'k': 'datetime', 'tz': 'VOther', 'utcoffset_seconds': v.tzinfo.utcoffset(v).total_seconds()}
    if isinstance(v, datetime.date):
        return {'k': 'other'}
    if isinstance(v, bytearray):
        return {'k': 'other'}
    if isinstance(v, list):
        return {'k': 'list', 'items': [desc_value(x) for x in v]}
    if isinstance(v, tuple):
        return {'k': 'tuple', 'items': [desc_value(x) for x in v]}
    if isinstance(v, dict):
        return {'k': 'dict', 'items': [[desc_value(a), desc_value(b)] for a, b in v.items()]}
    return N.describe(v)


def validate_case(cls, proper=False):
    def gen(rng):
        t = gen_of_class(rng, cls, proper)
        if rng.random() < 0.75:
            v = desc_value(gen_value_for(rng, t))
        else:
            v = N.sample_value(rng)
        return {'self': N.describe(t), 'val': v}
    return gen


# ---------------------------------------------------------------- values of generated classes
import stone.backends.python_rsrc.stone_base as bb


def corpus_validators(kinds=None):
    """the validators of the corpus of the given kinds: module-level ones, field and tag validators, and the
    validators nested in them (inside Nullable / List / Map)"""
    import spec.corpus as corpus
    top = [v for e, v in corpus.validators()]
    for e, c in corpus.struct_classes():
        top.extend(fv for name, fv in c._all_fields_)
    for e, c in corpus.union_classes():
        top.extend(tv for tag, tv in sorted(c._tagmap.items()))
    out = []
    seen = set()
    stack = list(reversed(top))
    while stack:
        v = stack.pop()
        if id(v) in seen:
            continue
        seen.add(id(v))
        if kinds is None or isinstance(v, kinds):
            out.append(v)
        if isinstance(v, bv.Nullable):
            stack.append(v.validator)
        elif isinstance(v, bv.List):
            stack.append(v.item_validator)
        elif isinstance(v, bv.Map):
            stack.append(v.value_validator)
    return out


def subclasses_in_corpus(cls):
    out = [cls]
    for k in cls.__subclasses__():
        out.extend(subclasses_in_corpus(k))
    return out


def gen_gvalue(rng, t, depth=0):
    """a value for validator t (any kind, including generated struct / union
    types), valid or one step away from valid"""
    if isinstance(t, bv.Nullable):
        if rng.random() < 0.3:
            return None
        return gen_gvalue(rng, t.validator, depth + 1)
    if isinstance(t, bv.List):
        n = rng.choice([0, 1, 2])
        items = [gen_gvalue(rng, t.item_validator, depth + 1) for _ in range(n)]
        return tuple(items) if rng.random() < 0.15 else items
    if isinstance(t, bv.Map):
        return dict(('k%d' % i, gen_gvalue(rng, t.value_validator, depth + 1)) for i in range(rng.choice([0, 1, 2])))
    if isinstance(t, bv.Struct):
        if rng.random() < 0.08:
            return rng.choice([None, 3, 'x', object()])
        if isinstance(t, bv.StructTree) and rng.random() < 0.85:
            cls = rng.choice(list(t.definition._pytype_to_tag_and_subtype_))
        else:
            cls = rng.choice(subclasses_in_corpus(t.definition))
        return gen_instance(rng, cls, depth)
    if isinstance(t, bv.Union):
        if rng.random() < 0.08:
            return rng.choice([None, 3, 'x', object()])
        return gen_union(rng, t.definition, depth)
    return gen_value_for(rng, t, depth)


def gen_instance(rng, cls, depth=0):
    o = cls()
    for name, fv in cls._all_fields_:
        r = rng.random()
        slot = '_%s_value' % name
        a = getattr(cls, name)
        optional = a.nullable or a.default is not bb.NO_DEFAULT
        if depth > 3 or (optional and r < 0.45) or (not optional and r < 0.07):
            continue
        v = gen_gvalue(rng, fv, depth + 1)
        if v is None:
            continue
        object.__setattr__(o, slot, v)
    if rng.random() < 0.03 and cls._all_fields_:
        # an instance with a missing storage slot (created without __init__)
        o2 = object.__new__(cls)
        return o2
    return o


def gen_union(rng, cls, depth=0):
    tags = sorted(cls._tagmap)
    tag = rng.choice(tags)
    tv = cls._tagmap[tag]
    o = object.__new__(cls)
    if isinstance(tv, bv.Void):
        val = None if rng.random() < 0.9 else 1
    elif depth > 3:
        val = None
    else:
        val = gen_gvalue(rng, tv, depth + 1)
    object.__setattr__(o, '_tag', tag if rng.random() < 0.95 else rng.choice([None, 'nope']))
    object.__setattr__(o, '_value', val)
    return o


def gvalidate_case(kinds):
    """(self=validator of the corpus of the given kinds, val=value for it)"""
    def gen(rng):
        t = rng.choice(corpus_validators(kinds))
        v = gen_gvalue(rng, t) if rng.random() < 0.85 else rng.choice([None, 1, 'a', [], {}])
        return {'self': N.describe(t), 'val': desc_value2(v)}
    return gen


def desc_value2(v):
    d = N.describe_generated(v, 0, {})
    if d is not None:
        return d
    if isinstance(v, list):
        return {'k': 'list', 'items': [desc_value2(x) for x in v]}
    if isinstance(v, tuple):
        return {'k': 'tuple', 'items': [desc_value2(x) for x in v]}
    if isinstance(v, dict):
        return {'k': 'dict', 'items': [[desc_value2(a), desc_value2(b)] for a, b in v.items()]}
    if type(v) is object:
        return {'k': 'other'}
    return desc_value(v)


def serializer_desc():
    return {'k': 'obj', 'cls': 'stone.backends.python_rsrc.stone_serializers:StoneToPythonPrimitiveSerializer',
            'slots': {'caller_permissions': {'k': 'obj', 'cls': 'stone.backends.python_rsrc.stone_serializers:CallerPermissionsDefault', 'slots': {}, 'id': 2},
                      '_alias_validators': {'k': 'dict', 'items': []}, '_for_msgpack': {'k': 'bool', 'v': False},
                      '_old_style': {'k': 'bool', 'v': False}, 'should_redact': {'k': 'bool', 'v': False}}, 'id': 1}


def encode_case(kinds=None, value_kind=None):
    def gen(rng):
        import spec.corpus as corpus
        corpus.load()
        t = rng.choice(corpus_validators(kinds))
        v = gen_gvalue(rng, t)
        return {'self': serializer_desc(), 'validator': N.describe(t), 'value': desc_value2(v)}
    return gen


def _perm_desc():
    return {'k': 'obj', 'cls': 'stone.backends.python_rsrc.stone_serializers:CallerPermissionsDefault', 'slots': {}, 'id': 2}


def attribute_case(mode):
    def gen(rng):
        import spec.corpus as corpus
        e, cls = rng.choice(corpus.struct_classes())
        if not cls._all_fields_:
            e, cls = rng.choice([x for x in corpus.struct_classes() if x[1]._all_fields_])
        k = rng.randrange(len(cls._all_fields_))
        name, fv = cls._all_fields_[k]
        a = getattr(cls, name)
        inst = gen_instance(rng, rng.choice(subclasses_in_corpus(cls)), 1)
        d = {'self': N.describe(a), 'instance': desc_value2(inst)}
        if mode == 'get':
            d['owner'] = N.describe(cls)
        elif mode == 'set':
            v = gen_gvalue(rng, fv, 1) if rng.random() < 0.8 else rng.choice([None, 1, 'a', [], 2.5])
            d['value'] = desc_value2(v)
        return d
    return gen


def union_init_case(rng):
    import spec.corpus as corpus
    e, cls = rng.choice(corpus.union_classes())
    tags = sorted(cls._tagmap)
    tag = rng.choice(tags + ['nope'])
    tv = cls._tagmap.get(tag)
    if tv is None or rng.random() < 0.25:
        v = rng.choice([None, 1, 'a', []])
    else:
        v = gen_gvalue(rng, tv, 1)
    return {'self': {'k': 'gunion', 'cls': e}, 'tag': N.describe(tag), 'value': desc_value2(v)}


def union_tag_case(rng):
    import spec.corpus as corpus
    e, cls = rng.choice(corpus.union_classes())
    tag = rng.choice(sorted(cls._tagmap) + ['nope', None])
    return {'cls': {'k': 'gclass', 'expr': e}, 'tag': N.describe(tag), 'caller_permissions': _perm_desc()}


def struct_default_case(rng):
    t = rng.choice(corpus_validators((bv.Struct,)))
    return {'self': N.describe(t)}


# ---------------------------------------------------------------- JSON documents for the decoder

def decoder_desc(strict):
    return {'k': 'obj', 'cls': 'stone.backends.python_rsrc.stone_serializers:PythonPrimitiveToStoneDecoder',
            'slots': {'caller_permissions': _perm_desc(), 'alias_validators': {'k': 'none'},
                      'strict': {'k': 'bool', 'v': bool(strict)}, '_old_style': {'k': 'bool', 'v': False},
                      '_for_msgpack': {'k': 'bool', 'v': False}}, 'id': 1}


JSON_ATOMS = [None, True, False, 0, 1, -1, 2 ** 31, 2 ** 64, 1.5, -0.0, '', 'a', 'ab', '.tag', 'other', 'é', 'YQ==',
              '2020-01-02T03:04:05Z', [], {}, [1], {'.tag': 'a'}, {'.tag': 3}, ['.tag']]


def mutate_json(rng, j, depth=0):
    """1-2 structural mutations of a JSON document"""
    r = rng.random()
    if isinstance(j, dict) and j and r < 0.75:
        d = dict(j)
        k = rng.choice(sorted(d))
        m = rng.random()
        if isinstance(d.get('.tag'), str) and rng.random() < 0.3:
            # the verbose form of a union member: a value (of any kind) under the tag name
            d[d['.tag']] = rng.choice(JSON_ATOMS)
            if rng.random() < 0.7:
                return d
        if m < 0.25:
            del d[k]
        elif m < 0.45:
            d['zz_unknown'] = rng.choice(JSON_ATOMS)
        elif m < 0.6:
            d[k + '_x'] = d.pop(k)
        elif m < 0.8 and depth < 3:
            d[k] = mutate_json(rng, d[k], depth + 1)
        else:
            d[k] = rng.choice(JSON_ATOMS)
        return d
    if isinstance(j, list) and j and r < 0.75 and depth < 3:
        l = list(j)
        i = rng.randrange(len(l))
        l[i] = mutate_json(rng, l[i], depth + 1)
        return l
    return rng.choice(JSON_ATOMS)


def gen_document(rng, t):
    """a JSON document for validator t: the reference encoding of a valid value,
    a mutation of one, or an arbitrary small document"""
    import spec.runtime as S
    r = rng.random()
    if r < 0.12:
        return rng.choice(JSON_ATOMS)
    for _ in range(20):
        v = gen_gvalue(rng, t)
        try:
            if S.enc_pre(t, v) and S.enc_ok(t, v):
                j = S.enc_val(t, v)
                break
        except Exception:
            continue
    else:
        return rng.choice(JSON_ATOMS)
    if isinstance(j, dict):
        j = dict(j)
    if r < 0.55:
        return j
    j = mutate_json(rng, j)
    if r > 0.9:
        j = mutate_json(rng, j)
    return j


def decode_case(kinds=None, argname='data_type', need_dict=False):
    def gen(rng):
        import spec.corpus as corpus
        corpus.load()
        t = rng.choice(corpus_validators(kinds))
        for _ in range(50):
            j = gen_document(rng, t)
            if not need_dict or isinstance(j, dict):
                break
        return {'self': decoder_desc(rng.random() < 0.5), argname: N.describe(t), 'obj': desc_value2(j)}
    return gen
