"""SpecPy: specification functions for the Python runtime of stone
(stone_validators / stone_base / stone_serializers).

Written from the property statements (properties.jsonl C04-C08, C10, C13) and
docs/json_serializer.rst, not from the code.  The same text is translated to
z3 by PyVC and executed natively as the replay oracle.
"""
import datetime
import math
import numbers

from pyvc.contract import spec, Ret, Raise, implies

import stone.backends.python_rsrc.stone_validators as bv
import stone.backends.python_rsrc.stone_base as bb


# ---------------------------------------------------------------- kinds

def is_integral(v):
    """bool counts as an integer (the serializer documents and relies on it)."""
    return isinstance(v, numbers.Integral)


def is_real(v):
    return isinstance(v, numbers.Real)


# ---------------------------------------------------------------- well-formed validators
# What the validator constructors establish (C08: "parameter combinations at the
# type's extremes"): bounds are of the right kind and inside the type's range.

def wf_integer(t):
    return (isinstance(t.minimum, int) and not isinstance(t.minimum, bool)
            and isinstance(t.maximum, int) and not isinstance(t.maximum, bool)
            and t.default_minimum <= t.minimum and t.maximum <= t.default_maximum)


def valid_int(t, v):
    """C08: integer width and min/max."""
    return is_integral(v) and t.minimum <= v and v <= t.maximum


def valid_boolean(v):
    return isinstance(v, bool)
