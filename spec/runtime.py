"""SpecPy: specification functions for the Python runtime of stone
(stone_validators / stone_base / stone_serializers).

Written from the property statements (properties.jsonl C04-C08, C10, C13) and
docs/json_serializer.rst, not from the code.  The same text is translated to
z3 by PyVC and executed natively as the replay oracle.
"""
import datetime
import math
import numbers
import re

from pyvc.contract import spec, Ret, Raise, implies

import stone.backends.python_rsrc.stone_validators as bv
import stone.backends.python_rsrc.stone_base as bb

# |i| >= F64_BIG  <=>  float(i) overflows (the midpoint between the largest
# double and 2**1024 rounds to even, i.e. up)
F64_BIG = 2 ** 1024 - 2 ** 970


# ---------------------------------------------------------------- kinds

def is_integral(v):
    """bool counts as an integer (the serializer documents and relies on it)."""
    return isinstance(v, numbers.Integral)


def is_real(v):
    return isinstance(v, numbers.Real)


def is_plain_int(v):
    return isinstance(v, int) and not isinstance(v, bool)


def opt_int_ge(x, lo):
    """x is None or an integer >= lo."""
    return x is None or (is_integral(x) and x >= lo)


# ---------------------------------------------------------------- well-formed validators
# What the validator constructors establish (C08: "parameter combinations at the
# type's extremes"): bounds are of the right kind and inside the type's range.

def wf_integer(t):
    return (is_integral(t.minimum) and is_integral(t.maximum)
            and t.default_minimum <= t.minimum and t.maximum <= t.default_maximum)


def opt_float_bound(x):
    """None or a float that is not NaN (stone literals cannot denote NaN)."""
    return x is None or (isinstance(x, float) and not math.isnan(x))


def wf_real(t):
    return (opt_float_bound(t.minimum) and opt_float_bound(t.maximum)
            and (t.default_minimum is None or (t.minimum is not None and t.default_minimum <= t.minimum))
            and (t.default_maximum is None or (t.maximum is not None and t.maximum <= t.default_maximum)))


def whole_string_pattern(pattern):
    """Axiom RE: the compiled form that matches exactly the strings the
    pattern matches as a whole."""
    return re.compile(r"\A(?:" + pattern + r")\Z")


def wf_string(t):
    return (opt_int_ge(t.min_length, 0) and opt_int_ge(t.max_length, 1)
            and (t.pattern is None or isinstance(t.pattern, str))
            and ((not t.pattern and t.pattern_re is None)
                 or (bool(t.pattern) and t.pattern_re == whole_string_pattern(t.pattern))))


def wf_bytes(t):
    return opt_int_ge(t.min_length, 0) and opt_int_ge(t.max_length, 1)


def wf_timestamp(t):
    return isinstance(t.format, str)


def wf_list_params(t):
    return opt_int_ge(t.min_items, 0) and opt_int_ge(t.max_items, 1)


@spec(recursive=True, returns='bool')
def wf(t):
    """Well-formed validator tree."""
    if isinstance(t, bv.Boolean):
        return True
    if isinstance(t, bv.Integer):
        return type(t) is not bv.Integer and wf_integer(t)
    if isinstance(t, bv.Real):
        return type(t) is not bv.Real and wf_real(t)
    if isinstance(t, bv.String):
        return wf_string(t)
    if isinstance(t, bv.Bytes):
        return wf_bytes(t)
    if isinstance(t, bv.Timestamp):
        return wf_timestamp(t)
    if isinstance(t, bv.Void):
        return True
    if isinstance(t, bv.Nullable):
        return (isinstance(t.validator, (bv.Primitive, bv.Composite))
                and not isinstance(t.validator, bv.Void) and wf(t.validator))
    if isinstance(t, bv.List):
        return wf_list_params(t) and isinstance(t.item_validator, bv.Validator) and wf(t.item_validator)
    if isinstance(t, bv.Map):
        return (isinstance(t.key_validator, bv.String) and wf(t.key_validator)
                and isinstance(t.value_validator, bv.Validator) and wf(t.value_validator))
    if isinstance(t, bv.StructTree):
        return isinstance(t.definition, type) and wf_tree_def(t.definition)
    if isinstance(t, bv.Struct):
        return isinstance(t.definition, type) and wf_struct_def(t.definition)
    if isinstance(t, bv.Union):
        return isinstance(t.definition, type) and wf_union_def(t.definition)
    return False


# ---------------------------------------------------------------- valid / norm (C08)

def valid_boolean(v):
    return isinstance(v, bool)


def valid_int(t, v):
    """C08: integer width and min/max."""
    return is_integral(v) and t.minimum <= v and v <= t.maximum


def float_convertible(v):
    return isinstance(v, float) or (-F64_BIG < v and v < F64_BIG)


def real_in_range(t, f):
    return (not math.isnan(f) and not math.isinf(f)
            and (t.minimum is None or t.minimum <= f)
            and (t.maximum is None or f <= t.maximum))


def valid_real(t, v):
    """C08: finite float within range (ints are accepted and stored as floats)."""
    return is_real(v) and float_convertible(v) and real_in_range(t, float(v))


def valid_string(t, v):
    """C08: string length and whole-string pattern."""
    return (isinstance(v, str)
            and (t.max_length is None or len(v) <= t.max_length)
            and (t.min_length is None or len(v) >= t.min_length)
            and (not t.pattern or whole_string_pattern(t.pattern).match(v) is not None))


def valid_bytes(t, v):
    return (isinstance(v, bytes)
            and (t.max_length is None or len(v) <= t.max_length)
            and (t.min_length is None or len(v) >= t.min_length))


def valid_timestamp(v):
    """naive or UTC datetime"""
    return isinstance(v, datetime.datetime) and (
        v.tzinfo is None or v.tzinfo.utcoffset(v).total_seconds() == 0)


def valid_list(t, v):
    return (isinstance(v, (list, tuple))
            and (t.max_items is None or len(v) <= t.max_items)
            and (t.min_items is None or len(v) >= t.min_items)
            and all(valid(t.item_validator, x) for x in v))


def valid_map(t, v):
    return isinstance(v, dict) and all(
        valid(t.key_validator, k) and valid(t.value_validator, x) for k, x in v.items())


@spec(recursive=True, returns='bool')
def valid(t, v):
    """C08: the value satisfies the declared Stone type."""
    if isinstance(t, bv.Boolean):
        return valid_boolean(v)
    if isinstance(t, bv.Integer):
        return valid_int(t, v)
    if isinstance(t, bv.Real):
        return valid_real(t, v)
    if isinstance(t, bv.String):
        return valid_string(t, v)
    if isinstance(t, bv.Bytes):
        return valid_bytes(t, v)
    if isinstance(t, bv.Timestamp):
        return valid_timestamp(v)
    if isinstance(t, bv.Void):
        return v is None
    if isinstance(t, bv.Nullable):
        return v is None or valid(t.validator, v)
    if isinstance(t, bv.List):
        return valid_list(t, v)
    if isinstance(t, bv.Map):
        return valid_map(t, v)
    if isinstance(t, bv.Struct):
        return valid_struct(t, v)
    if isinstance(t, bv.Union):
        return valid_union(t, v)
    return False


@spec(recursive=True, returns='val')
def norm(t, v):
    """Documented normalisations: ints become floats in float positions,
    tuples become lists; everything else is stored as given."""
    if isinstance(t, bv.Real):
        return float(v)
    if isinstance(t, bv.Void):
        return None
    if isinstance(t, bv.Nullable):
        if v is None:
            return None
        return norm(t.validator, v)
    if isinstance(t, bv.List):
        return [norm(t.item_validator, x) for x in v]
    if isinstance(t, bv.Map):
        return {norm(t.key_validator, k): norm(t.value_validator, x) for k, x in v.items()}
    return v


def validate_outcome(t, v):
    """The contract of every ``validate``: accept exactly the valid values,
    return the normalisation, refuse with ValidationError only."""
    if valid(t, v):
        return Ret(norm(t, v))
    return Raise(bv.ValidationError)


# ---------------------------------------------------------------- constructors (C08)
# "constructors establish wf(T) and assert exactly on illegal parameters"

def int_params_ok(t, lo, hi):
    return ((lo is None or (is_integral(lo) and lo >= t.default_minimum))
            and (hi is None or (is_integral(hi) and hi <= t.default_maximum)))


def as_float(x):
    if isinstance(x, float):
        return x
    return float(x)


def real_bound_ok_lo(t, x):
    return x is None or (is_real(x) and float_convertible(x)
                         and not (t.default_minimum is not None and as_float(x) < t.default_minimum))


def real_bound_ok_hi(t, x):
    return x is None or (is_real(x) and float_convertible(x)
                         and not (t.default_maximum is not None and as_float(x) > t.default_maximum))


def real_params_ok(t, lo, hi):
    return real_bound_ok_lo(t, lo) and real_bound_ok_hi(t, hi)


def length_params_ok(lo, hi):
    """min_length/max_length (Bytes) and min_items/max_items (List)."""
    return (opt_int_ge(lo, 0) and opt_int_ge(hi, 1)
            and (lo is None or hi is None or hi >= lo))


def string_params_ok(lo, hi, pattern):
    return (opt_int_ge(lo, 0) and opt_int_ge(hi, 1)
            and (not lo or not hi or hi >= lo)
            and (pattern is None or isinstance(pattern, str))
            and (not pattern or pattern_compiles(r"\A(?:" + pattern + r")\Z")))


def pattern_compiles(p):
    return re_valid(p)


def re_valid(p):
    """Axiom RE: the regex engine accepts the pattern (uninterpreted)."""
    return re_compile_ok(p)


def re_compile_ok(p):
    try:
        re.compile(p)
        return True
    except re.error:
        return False


def nullable_param_ok(v):
    return (isinstance(v, (bv.Primitive, bv.Composite)) and not isinstance(v, bv.Nullable)
            and not isinstance(v, bv.Void))


def same_float(a, b):
    """identical doubles (NaN equals NaN; +0.0 and -0.0 are told apart only by sign)"""
    return (math.isnan(a) and math.isnan(b)) or a == b


# =====================================================================================
# Generated classes (python_types output): reflection tables and instances
# =====================================================================================
NOT_SET = bb.NOT_SET
NO_DEFAULT = bb.NO_DEFAULT


def slot_name(name):
    return '_%s_value' % name


def is_slot_name(n):
    """n is '_<x>_value' for some x (the storage name of a field)"""
    return isinstance(n, str) and n.startswith('_') and n.endswith('_value') and len(n) >= 7


def raw_slot(v, name):
    """the stored value of field ``name`` of struct instance ``v`` (NOT_SET when unset)"""
    return getattr(v, slot_name(name))


def unwrap_nullable(t):
    if isinstance(t, bv.Nullable):
        return t.validator
    return t


def is_user_validator(t):
    return isinstance(t, (bv.Struct, bv.Union))


def wf_attr(D, f):
    """the descriptor of field f = (name, validator) on definition class D"""
    a = getattr(D, f[0])
    return (isinstance(a, bb.Attribute)
            and is_slot_name(a.name) and a.name == slot_name(f[0])
            and hasattr(a, 'validator') and a.validator is f[1]
            and isinstance(a.nullable, bool) and a.nullable == isinstance(f[1], bv.Nullable)
            and isinstance(a.user_defined, bool)
            and a.user_defined == is_user_validator(unwrap_nullable(f[1]))
            and hasattr(a, 'default'))


def wf_field_shape(D, f):
    return (isinstance(f, tuple) and len(f) == 2 and isinstance(f[0], str)
            and isinstance(f[1], bv.Validator) and wf_attr(D, f))


def field_index(D, n):
    """position of the field named n in D._all_fields_ (ghost function: the
    witness of 'every name in _all_field_names_ is the name of a field')"""
    k = 0
    for f in D._all_fields_:
        if f[0] == n:
            return k
        k = k + 1
    return -1


def name_is_field(D, n):
    return (isinstance(n, str) and 0 <= field_index(D, n) and field_index(D, n) < len(D._all_fields_)
            and D._all_fields_[field_index(D, n)][0] == n)


def field_required(D, f):
    """neither nullable nor defaulted"""
    return not getattr(D, f[0]).nullable and getattr(D, f[0]).default is NO_DEFAULT


@spec(recursive=True, returns='bool')
def wf_def_tables(D):
    """kinds of the reflection tables of a generated struct class"""
    return (issubclass(D, bb.Struct) and D is not bb.Struct
            and isinstance(D._all_fields_, list)
            and isinstance(D._all_field_names_, set)
            and isinstance(D._has_required_fields, bool))


@spec(recursive=True, returns='bool')
def wf_def_fields(D):
    """every entry of _all_fields_ is (name, validator) with its descriptor"""
    return all(wf_field_shape(D, f) for f in D._all_fields_)


@spec(recursive=True, returns='bool')
def wf_def_names(D):
    """_all_field_names_ is exactly the set of the names in _all_fields_"""
    return (all(f[0] in D._all_field_names_ for f in D._all_fields_)
            and all(name_is_field(D, n) for n in D._all_field_names_))


@spec(recursive=True, returns='bool')
def wf_def_required(D):
    return D._has_required_fields == any(field_required(D, f) for f in D._all_fields_)


@spec(recursive=True, returns='bool')
def wf_def_validators(D):
    """the field validators are themselves well formed"""
    return all(wf(f[1]) for f in D._all_fields_)


@spec(recursive=True, returns='bool')
def wf_struct_def(D):
    """Reflection tables of a generated struct class (what the python_types
    backend must emit; checked on generated code by the GEN-WF stand-in)."""
    return (wf_def_tables(D) and wf_def_fields(D) and wf_def_names(D) and wf_def_required(D)
            and wf_def_validators(D))


def wf_tag_entry(D, tag):
    return isinstance(tag, str) and isinstance(D._tagmap[tag], bv.Validator) and wf(D._tagmap[tag])


@spec(recursive=True, returns='bool')
def wf_union_def(D):
    return (issubclass(D, bb.Union) and D is not bb.Union
            and isinstance(D._tagmap, dict)
            and all(wf_tag_entry(D, tag) for tag in D._tagmap)
            and (D._catch_all is None
                 or (isinstance(D._catch_all, str) and D._catch_all in D._tagmap
                     and isinstance(D._tagmap[D._catch_all], bv.Void)))
            and isinstance(D._permissioned_tagmaps, set) and len(D._permissioned_tagmaps) == 0)


def wf_subtype_entry(D, k):
    """entry of _pytype_to_tag_and_subtype_: class -> ((tag,), Struct validator of that class)"""
    e = D._pytype_to_tag_and_subtype_[k]
    return (isinstance(e, tuple) and len(e) == 2
            and isinstance(e[0], tuple) and len(e[0]) == 1 and isinstance(e[0][0], str)
            and isinstance(e[1], bv.Struct) and wf(e[1])
            and issubclass(e[1].definition, D)
            and e[0] in D._tag_to_subtype_ and D._tag_to_subtype_[e[0]] is e[1])


def wf_tag_to_subtype_entry(D, k):
    return (isinstance(k, tuple) and len(k) == 1 and isinstance(k[0], str)
            and isinstance(D._tag_to_subtype_[k], bv.Struct) and wf(D._tag_to_subtype_[k])
            and issubclass(D._tag_to_subtype_[k].definition, D))


@spec(recursive=True, returns='bool')
def wf_tree_def(D):
    return (wf_struct_def(D)
            and isinstance(D._pytype_to_tag_and_subtype_, dict)
            and isinstance(D._tag_to_subtype_, dict)
            and isinstance(D._is_catch_all_, bool)
            and all(wf_subtype_entry(D, k) for k in D._pytype_to_tag_and_subtype_)
            and all(wf_tag_to_subtype_entry(D, k) for k in D._tag_to_subtype_))


# ---------------------------------------------------------------- values of generated classes (C08)

def field_present(v, name):
    """hasattr(v, name): the field is set, or nullable, or has a default"""
    a = getattr(type(v), name)
    return hasattr(v, slot_name(name)) and (
        raw_slot(v, name) is not NOT_SET or a.nullable or a.default is not NO_DEFAULT)


def struct_type_ok(t, v):
    """the right class; subclasses allowed for structs"""
    return isinstance(v, t.definition)


def struct_fields_ok(t, v):
    """every field is present; stated over the set of field names (which the
    table well-formedness equates with the names in the field list)"""
    return all(field_present(v, n) for n in t.definition._all_field_names_)


def valid_struct(t, v):
    return struct_type_ok(t, v) and struct_fields_ok(t, v)


def union_type_ok(t, v):
    """a parent union is allowed where a child union is expected"""
    return issubclass(t.definition, type(v))


def union_has_tag(v):
    return hasattr(v, '_tag') and v._tag is not None


def valid_union(t, v):
    return union_type_ok(t, v) and union_has_tag(v)


# ---------------------------------------------------------------- functional dict helpers

def dict_with(d, k, v):
    """d with d[k] = v (a new dict; insertion order kept)"""
    r = dict(d)
    r[k] = v
    return r


def dict_update(a, b):
    """a updated with b (a new dict)"""
    r = dict(a)
    r.update(b)
    return r


# ---------------------------------------------------------------- field assignment (C08)

def type_only_ok(t, v):
    """the type-only check used for user-defined field types"""
    if isinstance(t, bv.Nullable):
        return v is None or type_only_ok_inner(t.validator, v)
    return type_only_ok_inner(t, v)


def type_only_ok_inner(t, v):
    if isinstance(t, bv.Struct):
        return struct_type_ok(t, v)
    return union_type_ok(t, v)


def assignable(t, v):
    """a field of validator t accepts v on assignment"""
    if is_user_validator(unwrap_nullable(t)):
        return type_only_ok(t, v)
    return valid(t, v)


def stored_value(a, v):
    """what the slot holds after a successful assignment"""
    if a.nullable and v is None:
        return NOT_SET
    if a.user_defined:
        return v
    return norm(a.validator, v)


# ---------------------------------------------------------------- unions (C08)

def hashable_key(x):
    return not isinstance(x, (list, dict, set))


def tag_validator(D, tag):
    """the validator of tag in D's tag map, None if D has no such tag"""
    if tag in D._tagmap:
        return D._tagmap[tag]
    return None


def union_member_ok(t, value):
    """constructing a union member of validator t with this value"""
    if isinstance(t, bv.Void):
        return value is None
    if isinstance(t, (bv.Struct, bv.Union)):
        return type_only_ok_inner(t, value)
    return valid(t, value)


# =====================================================================================
# The wire format (docs/json_serializer.rst): Enc  (C05; C04/C07/C13 build on it)
#
# enc_ok(t, v)  : encoding v at type t succeeds (otherwise ValidationError)
# enc_val(t, v) : the JSON value it yields
# enc_pre(t, v) : the domain of the encoder (DESIGN rt_domain): every position of an
#                 enumerated-subtype type holds an instance of a listed leaf subtype, union
#                 positions hold union objects (with _tag / _value slots)
# Context of this revision: new-style JSON, no msgpack, no alias validators, no redaction,
# caller without extra permissions (ctx_ok); C13 extends it.
# =====================================================================================
import base64


def ctx_ok(s):
    return (isinstance(s.caller_permissions, ss.CallerPermissionsDefault)
            and s._old_style is False and s._for_msgpack is False and s.should_redact is False
            and s._alias_validators == {})


import stone.backends.python_rsrc.stone_serializers as ss


def ctx_ok_r(s):
    """ctx_ok with redaction either requested or not (C13)"""
    return (isinstance(s.caller_permissions, ss.CallerPermissionsDefault)
            and s._old_style is False and s._for_msgpack is False and isinstance(s.should_redact, bool)
            and s._alias_validators == {})


def redactor_ok(t):
    """the _redact slot, when the generator filled it, holds a redactor"""
    return not hasattr(t, '_redact') or isinstance(t._redact, (bv.HashRedactor, bv.BlotRedactor))


@spec(opaque=True, returns='val')
def redact_apply(r, v):
    """what the redactor makes of a value (HashRedactor / BlotRedactor bodies are string / regex / md5
    code: trusted, not verified; compared natively)"""
    return r.apply(v)


def redacted(r, value):
    """C13: with redaction requested, a value whose validator carries a redactor is replaced by the
    redactor's output -- item by item for a list, value by value for a map"""
    if isinstance(value, list):
        return [redact_apply(r, v) for v in value]
    if isinstance(value, dict):
        return {k: redact_apply(r, v) for k, v in value.items()}
    return redact_apply(r, value)


def b64_text(v):
    """Bytes: Base64-encoded string"""
    return base64.b64encode(v).decode('ascii')


def enc_primitive(t, v):
    if isinstance(t, bv.Void):
        return None
    if isinstance(t, bv.Timestamp):
        return v.strftime(t.format)
    if isinstance(t, bv.Bytes):
        return b64_text(v)
    if isinstance(t, bv.Integer) and isinstance(v, bool):
        return int(v)
    return v


def field_emitted(v, name):
    """a struct field appears in the encoding iff it was set explicitly (to a non-null value)"""
    return raw_slot(v, name) is not NOT_SET and raw_slot(v, name) is not None


def field_enc_ok(f, v):
    return field_present(v, f[0]) and (not field_emitted(v, f[0]) or enc_ok(f[1], raw_slot(v, f[0])))


def enc_fields_ok(fields, k, v):
    return all(field_enc_ok(fields[i], v) for i in range(k))


@spec(recursive=True, returns='val', kind='dict')
def enc_fields_dict(fields, k, v):
    """object with one key per emitted field among the first k fields"""
    if k <= 0:
        return {}
    if field_emitted(v, fields[k - 1][0]):
        return dict_with(enc_fields_dict(fields, k - 1, v), fields[k - 1][0],
                         enc_val(fields[k - 1][1], raw_slot(v, fields[k - 1][0])))
    return enc_fields_dict(fields, k - 1, v)


def enc_struct_ok(t, v):
    return enc_fields_ok(t.definition._all_fields_, len(t.definition._all_fields_), v)


def enc_struct_val(t, v):
    return enc_fields_dict(t.definition._all_fields_, len(t.definition._all_fields_), v)


def tree_entry(t, v):
    return t.definition._pytype_to_tag_and_subtype_[type(v)]


def tree_listed_leaf(t, v):
    return (type(v) in t.definition._pytype_to_tag_and_subtype_
            and not isinstance(tree_entry(t, v)[1], bv.StructTree))


def member_is_none(tv, value):
    return isinstance(tv, bv.Void) or (isinstance(tv, bv.Nullable) and value is None)


def enc_union_ok(t, v):
    return (v._tag is not None and hashable_key(v._tag) and v._tag in t.definition._tagmap
            and (member_is_none(t.definition._tagmap[v._tag], v._value)
                 or enc_ok(t.definition._tagmap[v._tag], v._value)))


def flattened_member(tv):
    """members that are ordinary structs serialize as the struct plus a .tag key"""
    return isinstance(unwrap_nullable(tv), bv.Struct) and not isinstance(unwrap_nullable(tv), bv.StructTree)


def enc_union_val(t, v):
    if member_is_none(t.definition._tagmap[v._tag], v._value):
        return {'.tag': v._tag}
    if flattened_member(t.definition._tagmap[v._tag]):
        return dict_update({'.tag': v._tag}, enc_val(t.definition._tagmap[v._tag], v._value))
    return dict_with({'.tag': v._tag}, v._tag, enc_val(t.definition._tagmap[v._tag], v._value))


@spec(recursive=True, returns='bool')
def enc_ok(t, v):
    if isinstance(t, bv.List):
        return valid(t, v) and all(enc_ok(t.item_validator, x) for x in norm(t, v))
    if isinstance(t, bv.Map):
        return valid(t, v) and all(enc_ok(t.key_validator, k) and enc_ok(t.value_validator, x)
                                   for k, x in norm(t, v).items())
    if isinstance(t, bv.Nullable):
        return valid(t, v) and (v is None or enc_ok(t.validator, v))
    if isinstance(t, bv.Primitive):
        return valid(t, v)
    if isinstance(t, bv.StructTree):
        return valid(t, v) and enc_struct_ok(tree_entry(t, v)[1], v)
    if isinstance(t, bv.Struct):
        return struct_type_ok(t, v) and enc_struct_ok(t, v)
    if isinstance(t, bv.Union):
        return union_type_ok(t, v) and enc_union_ok(t, v)
    return False


def _enc_val_facts(t, v, r):
    """the encoding of a struct (with or without subtype tag) is a JSON object"""
    return not isinstance(t, bv.Struct) or isinstance(r, dict)


@spec(recursive=True, returns='val', facts=_enc_val_facts)
def enc_val(t, v):
    if isinstance(t, bv.List):
        return [enc_val(t.item_validator, x) for x in norm(t, v)]
    if isinstance(t, bv.Map):
        return {enc_val(t.key_validator, k): enc_val(t.value_validator, x) for k, x in norm(t, v).items()}
    if isinstance(t, bv.Nullable):
        if v is None:
            return None
        return enc_val(t.validator, v)
    if isinstance(t, bv.Primitive):
        return enc_primitive(t, v)
    if isinstance(t, bv.StructTree):
        return dict_update({'.tag': tree_entry(t, v)[0][0]}, enc_struct_val(tree_entry(t, v)[1], v))
    if isinstance(t, bv.Struct):
        return enc_struct_val(t, v)
    return enc_union_val(t, v)


def field_enc_pre(f, v):
    return not field_present(v, f[0]) or not field_emitted(v, f[0]) or enc_pre(f[1], raw_slot(v, f[0]))


@spec(recursive=True, returns='bool')
def enc_pre(t, v):
    """domain of the encoder"""
    if isinstance(t, bv.List):
        return not valid(t, v) or all(enc_pre(t.item_validator, x) for x in norm(t, v))
    if isinstance(t, bv.Map):
        return not valid(t, v) or all(enc_pre(t.key_validator, k) and enc_pre(t.value_validator, x)
                                      for k, x in norm(t, v).items())
    if isinstance(t, bv.Nullable):
        return v is None or not valid(t, v) or enc_pre(t.validator, v)
    if isinstance(t, bv.StructTree):
        return not valid(t, v) or (tree_listed_leaf(t, v) and all(
            field_enc_pre(f, v) for f in tree_entry(t, v)[1].definition._all_fields_))
    if isinstance(t, bv.Struct):
        return not struct_type_ok(t, v) or all(field_enc_pre(f, v) for f in t.definition._all_fields_)
    if isinstance(t, bv.Union):
        return not union_type_ok(t, v) or (
            hasattr(v, '_tag') and hasattr(v, '_value') and (v._tag is None or isinstance(v._tag, str)) and (
                v._tag is None or v._tag not in t.definition._tagmap
                or member_is_none(t.definition._tagmap[v._tag], v._value)
                or enc_pre(t.definition._tagmap[v._tag], v._value)))
    return True


def encode_outcome(t, v):
    if enc_ok(t, v):
        return Ret(enc_val(t, v))
    return Raise(bv.ValidationError)


def same(a, b):
    """the same value: identical objects, or equal plain data of the same type"""
    if a is b:
        return True
    if type(a) is not type(b):
        return False
    if isinstance(a, (list, tuple)):
        return len(a) == len(b) and all(same(x, y) for x, y in zip(a, b))
    if isinstance(a, dict):
        return list(a) == list(b) and all(same(a[k], b[k]) for k in a)
    if isinstance(a, float):
        return same_float(a, b)
    if isinstance(a, (bool, int, str, bytes)):
        return a == b
    return False


# =====================================================================================
# The decoder (C06): which JSON documents decode (dec_ok) and to what (dec_val)
# Context: new-style JSON, no msgpack, no alias validators, caller without extra permissions.
# Written to follow json_serializer.rst plus the accept / reject list of C06; the
# compatibility rules (lenient mode) follow evolve_spec.rst.
# =====================================================================================
import binascii


def dctx_ok(d):
    return (isinstance(d.caller_permissions, ss.CallerPermissionsDefault)
            and d._old_style is False and d._for_msgpack is False and d.alias_validators is None
            and isinstance(d.strict, bool))


def is_json(j):
    """what json.loads produces (object keys are strings); shallow"""
    return j is None or isinstance(j, (bool, int, float, str, list, dict))


@spec(recursive=True, returns='bool')
def json_deep(j):
    """a JSON value all the way down (what json.loads returns)"""
    if isinstance(j, list):
        return all(json_deep(x) for x in j)
    if isinstance(j, dict):
        return all(isinstance(k, str) and json_deep(k) and json_deep(x) for k, x in j.items())
    return is_json(j)


def json_keys_str(j):
    return not isinstance(j, dict) or all(isinstance(k, str) for k in j)


def _strptime_ok_facts(j, fmt, r):
    """strptime only accepts text"""
    return not r or (isinstance(j, str) and isinstance(fmt, str))


@spec(opaque=True, returns='bool', facts=_strptime_ok_facts)
def strptime_ok(j, fmt):
    """axiom TS: strptime accepts the text (raises only TypeError / ValueError otherwise)"""
    try:
        datetime.datetime.strptime(j, fmt)
        return True
    except (TypeError, ValueError):
        return False


@spec(opaque=True, returns='val')
def strptime_val(j, fmt):
    return datetime.datetime.strptime(j, fmt)


def b64_ok(j):
    """axiom B64: b64decode raises binascii.Error / TypeError for what is not Base64 -- and
    ValueError for a str with non-ASCII characters"""
    return isinstance(j, (str, bytes)) and b64_decodes(j)


def _b64_decodes_facts(j, r):
    """b64decode refuses a str with non-ASCII characters"""
    return not r or not isinstance(j, str) or j.isascii()


@spec(opaque=True, returns='bool', facts=_b64_decodes_facts)
def b64_decodes(j):
    try:
        base64.b64decode(j)
        return True
    except (TypeError, ValueError, binascii.Error):
        return False


@spec(opaque=True, returns='val')
def b64_val(j):
    return base64.b64decode(j)


def prim_dec_ok(t, j, strict):
    if isinstance(t, bv.Timestamp):
        return strptime_ok(j, t.format)
    if isinstance(t, bv.Bytes):
        return b64_ok(j)
    if isinstance(t, bv.Void):
        return not strict or j is None
    return True


def prim_dec_val(t, j):
    if isinstance(t, bv.Timestamp):
        return strptime_val(j, t.format)
    if isinstance(t, bv.Bytes):
        return b64_val(j)
    if isinstance(t, bv.Void):
        return None
    return j


def tree_subtype_ok(t, j, strict):
    """which subtype an enumerated-subtype document denotes"""
    return (isinstance(j, dict) and '.tag' in j and isinstance(j['.tag'], str)
            and (((j['.tag'],) in t.definition._tag_to_subtype_
                  and not isinstance(t.definition._tag_to_subtype_[(j['.tag'],)], bv.StructTree))
                 or ((j['.tag'],) not in t.definition._tag_to_subtype_ and not strict
                     and t.definition._is_catch_all_)))


def tree_subtype(t, j):
    if (j['.tag'],) in t.definition._tag_to_subtype_:
        return t.definition._tag_to_subtype_[(j['.tag'],)]
    return t


# ---------------------------------------------------------------- Dec: acceptance and value

def has_default_v(t):
    """Validator.has_default(): Void, Nullable, and structs without required fields"""
    if isinstance(t, (bv.Void, bv.Nullable)):
        return True
    if isinstance(t, bv.Struct):
        return not t.definition._has_required_fields
    return False


def field_dec_ok(f, j, strict):
    """field f = (name, validator) of a struct document j"""
    if f[0] in j:
        return dec_ok(f[1], j[f[0]], strict) and assignable(f[1], dec_val(f[1], j[f[0]], strict))
    return True        # an absent field never fails here; presence is checked after all fields


def known_key(t, k):
    return k in t.definition._all_field_names_ or k.startswith('.tag')


def dec_struct_ok(t, j, strict):
    if j is None and has_default_v(t):
        return True
    return (isinstance(j, dict)
            and (not strict or all(known_key(t, k) for k in j))
            and all(field_dec_ok(f, j, strict) for f in t.definition._all_fields_)
            and all(field_after_decode_present(t, f, j) for f in t.definition._all_fields_))


def field_after_decode_present(t, f, j):
    """required-field presence after decoding: given, defaulted by its type, or
    declared with a default / nullable"""
    return (f[0] in j or has_default_v(f[1])
            or getattr(t.definition, f[0]).nullable or getattr(t.definition, f[0]).default is not NO_DEFAULT)


def required_field(t, f):
    """a field the spec declares without default and not nullable"""
    return getattr(t.definition, f[0]).default is NO_DEFAULT and not getattr(t.definition, f[0]).nullable


def omits_required_field(t, j):
    """C06 must-reject clause, taken from the statement: "documents that omit a required field ... are rejected" """
    return (isinstance(t, bv.Struct) and not isinstance(t, bv.StructTree) and isinstance(j, dict)
            and any(f[0] not in j and required_field(t, f) for f in t.definition._all_fields_))


def omitted_required_are_defaultable_structs(t, j):
    """the shape of known finding K-C06-structdefault: every omitted required field has a struct type
    without required fields (the decoder fills in an empty instance instead of refusing)"""
    return all(f[0] in j or not required_field(t, f) or (isinstance(f[1], bv.Struct) and has_default_v(f[1]))
               for f in t.definition._all_fields_)


def union_tag_known(t, tag):
    return tag in t.definition._tagmap


def dec_union_str_ok(t, j, strict):
    """the compact form: the tag itself as a string"""
    if union_tag_known(t, j):
        return (isinstance(t.definition._tagmap[j], (bv.Void, bv.Nullable))
                and j != t.definition._catch_all)
    return not strict and t.definition._catch_all is not None


def dec_union_ok(t, j, strict):
    if isinstance(j, str):
        return dec_union_str_ok(t, j, strict)
    return isinstance(j, dict) and dec_union_dict_ok(t, j, strict)


def only_keys(j, tag):
    return all(k == tag or k == '.tag' for k in j)


def dec_union_dict_ok(t, j, strict):
    if '.tag' not in j or not isinstance(j['.tag'], str):
        return False
    if not union_tag_known(t, j['.tag']):
        return not strict and t.definition._catch_all is not None
    if j['.tag'] == t.definition._catch_all:
        return False
    return dec_member_ok(t.definition._tagmap[j['.tag']], j['.tag'], j, strict) and member_assignable(t, j, strict)


def dec_member_ok(tv, tag, j, strict):
    """the payload of tag in document j, for the member validator tv"""
    if isinstance(unwrap_nullable(tv), bv.Void):
        return not strict or ((tag not in j or j[tag] is None) and only_keys(j, tag))
    if flattened_member(tv):
        return (isinstance(tv, bv.Nullable) and len(j) == 1) or dec_ok(unwrap_nullable(tv), j, strict)
    if tag in j:
        return dec_ok(unwrap_nullable(tv), j[tag], strict) and only_keys(j, tag)
    return isinstance(tv, bv.Nullable) and only_keys(j, tag)


def dec_member_val(tv, tag, j, strict):
    if isinstance(unwrap_nullable(tv), bv.Void):
        return None
    if flattened_member(tv):
        if isinstance(tv, bv.Nullable) and len(j) == 1:
            return None
        return dec_val(unwrap_nullable(tv), j, strict)
    if tag in j:
        return dec_val(unwrap_nullable(tv), j[tag], strict)
    return None


def member_assignable(t, j, strict):
    """Union.__init__ accepts the decoded payload"""
    return (isinstance(unwrap_nullable(t.definition._tagmap[j['.tag']]), bv.Void)
            or union_member_ok(t.definition._tagmap[j['.tag']],
                               dec_member_val(t.definition._tagmap[j['.tag']], j['.tag'], j, strict)))


@spec(recursive=True, returns='bool')
def dec_ok(t, j, strict):
    """json_compat_obj_decode_helper(t, j) succeeds"""
    if isinstance(t, bv.StructTree):
        return tree_subtype_ok(t, j, strict) and dec_struct_ok(tree_subtype(t, j), j, strict)
    if isinstance(t, bv.Struct):
        return dec_struct_ok(t, j, strict)
    if isinstance(t, bv.Union):
        return dec_union_ok(t, j, strict)
    if isinstance(t, bv.List):
        return isinstance(j, list) and all(dec_ok(t.item_validator, x, strict) for x in j)
    if isinstance(t, bv.Map):
        return isinstance(j, dict) and all(dec_ok(t.key_validator, k, strict) and dec_ok(t.value_validator, x, strict)
                                           for k, x in j.items())
    if isinstance(t, bv.Nullable):
        return j is None or dec_ok(t.validator, j, strict)
    return prim_dec_ok(t, j, strict)


def _dec_obj_facts(t, j, strict, r):
    """a decoded struct / union is an instance of (exactly) the definition class"""
    return isinstance(r, bb.Struct) or isinstance(r, bb.Union) or r is None


@spec(opaque=True, returns='val')
def dec_struct_obj(t, j, strict):
    """the instance decode_struct builds (reference implementation; opaque to the solver)"""
    ins = object.__new__(t.definition)
    for f in t.definition._all_fields_:
        object.__setattr__(ins, slot_name(f[0]), NOT_SET)
    if j is None:
        return ins
    for f in t.definition._all_fields_:
        if f[0] in j:
            object.__setattr__(ins, slot_name(f[0]),
                               stored_value(getattr(t.definition, f[0]), dec_val(f[1], j[f[0]], strict)))
        elif has_default_v(f[1]):
            object.__setattr__(ins, slot_name(f[0]),
                               stored_value(getattr(t.definition, f[0]), t_default(f[1])))
    return ins


def t_default(t):
    if isinstance(t, bv.Struct):
        return dec_struct_obj(t, None, False)
    return None


def new_union(D, tag, value):
    u = object.__new__(D)
    object.__setattr__(u, '_tag', tag)
    object.__setattr__(u, '_value', value)
    return u


@spec(opaque=True, returns='val')
def dec_union_obj(t, j, strict):
    if isinstance(j, str):
        if union_tag_known(t, j):
            return new_union(t.definition, j, None)
        return new_union(t.definition, t.definition._catch_all, None)
    if not union_tag_known(t, j['.tag']):
        return new_union(t.definition, t.definition._catch_all, None)
    return new_union(t.definition, j['.tag'],
                     dec_member_val(t.definition._tagmap[j['.tag']], j['.tag'], j, strict))


@spec(recursive=True, returns='val')
def dec_val(t, j, strict):
    if isinstance(t, bv.StructTree):
        return dec_struct_obj(tree_subtype(t, j), j, strict)
    if isinstance(t, bv.Struct):
        return dec_struct_obj(t, j, strict)
    if isinstance(t, bv.Union):
        return dec_union_obj(t, j, strict)
    if isinstance(t, bv.List):
        return [dec_val(t.item_validator, x, strict) for x in j]
    if isinstance(t, bv.Map):
        return {dec_val(t.key_validator, k, strict): dec_val(t.value_validator, x, strict) for k, x in j.items()}
    if isinstance(t, bv.Nullable):
        if j is None:
            return None
        return dec_val(t.validator, j, strict)
    return prim_dec_val(t, j)


def decode_outcome(t, j, strict):
    if dec_ok(t, j, strict):
        return Ret(dec_val(t, j, strict))
    return Raise(bv.ValidationError)
