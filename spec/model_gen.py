"""Native-only: random API *models*, their rendering to spec text, and the field-by-field comparison of the
compiled API description with the model it was rendered from (C02)."""
import json

PRIMS = [('String', {}), ('String', {'min_length': 1}), ('String', {'max_length': 8}), ('Int32', {}), ('Int64', {'min_value': 0}),
         ('UInt32', {'max_value': 100}), ('UInt64', {}), ('Float64', {}), ('Float32', {'min_value': 0.0}), ('Boolean', {}),
         ('Bytes', {}), ('Timestamp', {'fmt': '%Y-%m-%d'})]


def _prim(rng):
    name, params = rng.choice(PRIMS)
    return {'k': 'prim', 'name': name, 'params': dict(params)}


def gen_type(rng, env, depth=0, allow_void=False):
    """a type expression over the user types / aliases already declared in env (no forward cycles)"""
    r = rng.random()
    if depth < 3 and r < 0.12:
        return {'k': 'list', 'of': gen_type(rng, env, depth + 1), 'min_items': rng.choice([None, 1]), 'max_items': rng.choice([None, 5])}
    if depth < 3 and r < 0.2:
        return {'k': 'map', 'of': gen_type(rng, env, depth + 1)}
    if r < 0.45 and env:
        return {'k': 'ref', 'ns': rng.choice(env)[0], 'name': None}      # filled below
    return _prim(rng)


def gen_model(rng):
    """{'namespaces': [ {name, doc, imports, aliases, structs, unions, routes} ]}; later namespaces may refer to
    earlier ones (imports), definitions refer to earlier definitions or forward within the namespace"""
    model = {'namespaces': [], 'route_attrs': [('auth', 'String', '"user"'), ('beta', 'Boolean', 'false')]}
    decl = []          # (ns, name, kind) of user types and aliases declared so far
    nns = rng.choice([1, 1, 2, 3])
    names_pool = ['Alpha', 'Beta', 'Gamma', 'Delta', 'Eps', 'Zeta', 'Eta', 'Theta', 'Iota', 'Kappa']
    for k in range(nns):
        nsname = ['zeta_ns', 'alpha_ns', 'mid_ns'][k]
        ns = {'name': nsname, 'doc': rng.choice([None, 'Doc of %s.' % nsname]), 'imports': [], 'aliases': [], 'structs': [],
              'unions': [], 'routes': []}
        pool = list(names_pool)
        rng.shuffle(pool)

        def ref(kinds=('struct', 'union', 'alias')):
            c = [d for d in decl if d[2] in kinds]
            if not c:
                return None
            d = rng.choice(c)
            if d[0] != nsname and d[0] not in ns['imports']:
                ns['imports'].append(d[0])
            return {'k': 'ref', 'ns': d[0], 'name': d[1], 'kind': d[2]}

        def typ(depth=0):
            r = rng.random()
            if depth < 3 and r < 0.12:
                return {'k': 'list', 'of': typ(depth + 1), 'min_items': rng.choice([None, 1]), 'max_items': rng.choice([None, 5])}
            if depth < 3 and r < 0.2:
                return {'k': 'map', 'of': typ(depth + 1)}
            if r < 0.5:
                t = ref()
                if t is not None:
                    return t
            return _prim(rng)

        for _ in range(rng.randrange(0, 3)):
            name = pool.pop()
            ns['aliases'].append({'name': name, 'type': typ(), 'doc': rng.choice([None, 'alias doc'])})
            decl.append((nsname, name, 'alias'))
        for _ in range(rng.randrange(0, 3)):
            name = pool.pop()
            closed = rng.random() < 0.4
            parent = None
            cands = [u for u in ns['unions'] if u['closed'] or not closed]
            # a closed union cannot extend an open one
            if cands and rng.random() < 0.35:
                parent = rng.choice(cands)['name']
            tags = []
            for i in range(rng.randrange(1, 4)):
                t = None if rng.random() < 0.5 else typ()
                tags.append({'name': '%s_t%d' % (name.lower(), i), 'type': t, 'nullable': t is not None and rng.random() < 0.2,
                             'doc': rng.choice([None, 'tag doc'])})
            ns['unions'].append({'name': name, 'closed': closed, 'parent': parent, 'tags': tags, 'doc': rng.choice([None, 'union doc'])})
            decl.append((nsname, name, 'union'))
        for _ in range(rng.randrange(1, 4)):
            name = pool.pop()
            parent = None
            cands = [s for s in ns['structs']]
            if cands and rng.random() < 0.4:
                parent = rng.choice(cands)['name']
            fields = []
            for i in range(rng.randrange(0, 4)):
                t = typ()
                nullable = rng.random() < 0.3
                default = None
                if not nullable and t['k'] == 'prim' and rng.random() < 0.35:
                    default = {'String': '"d"', 'Int32': '3', 'Int64': '4', 'UInt32': '5', 'UInt64': '6', 'Float64': '1.5',
                               'Float32': '2.5', 'Boolean': 'true'}.get(t['name'])
                    if t['name'] == 'String' and t['params'].get('max_length') == 8:
                        default = '"d"'
                if not nullable and t['k'] == 'ref' and t.get('kind') == 'union' and rng.random() < 0.6:
                    # a union-typed field may default to a void tag of the union, own or inherited
                    voids = _void_tags(model, ns, t)
                    if voids:
                        default = rng.choice(voids)
                fields.append({'name': '%s_f%d' % (name.lower(), i), 'type': t, 'nullable': nullable, 'default': default,
                               'doc': rng.choice([None, 'field doc %d' % i])})
            ns['structs'].append({'name': name, 'parent': parent, 'fields': fields, 'doc': rng.choice([None, 'struct doc'])})
            decl.append((nsname, name, 'struct'))
        for i in range(rng.randrange(0, 4)):
            rname = rng.choice(['get', 'put', 'list_all', 'zap'])
            version = rng.choice([1, 1, 2, 3])
            if any(r['name'] == rname and r['version'] == version for r in ns['routes']):
                continue
            def io():
                if rng.random() < 0.4:
                    return {'k': 'prim', 'name': 'Void', 'params': {}}
                t = ref(('struct', 'union'))
                return t if t is not None else {'k': 'prim', 'name': 'Void', 'params': {}}
            attrs = {}
            if rng.random() < 0.5:
                attrs['auth'] = '"app"'
            if rng.random() < 0.3:
                attrs['beta'] = 'true'
            ns['routes'].append({'name': rname, 'version': version, 'arg': io(), 'result': io(), 'error': io(),
                                 'deprecated': rng.random() < 0.2, 'attrs': attrs, 'doc': rng.choice([None, 'route doc'])})
        model['namespaces'].append(ns)
    return model


def _void_tags(model, cur_ns, ref):
    """the void tags of the referenced union, along its parent chain"""
    for ns in model['namespaces'] + [cur_ns]:
        if ns['name'] != ref['ns']:
            continue
        by = dict((u['name'], u) for u in ns['unions'])
        u = by.get(ref['name'])
        out = []
        while u is not None:
            out.extend(t['name'] for t in u['tags'] if t['type'] is None)
            u = by.get(u['parent']) if u['parent'] else None
        return out
    return []


# ---------------------------------------------------------------- rendering

def _type_text(t, ns, nullable=False):
    if t['k'] == 'prim':
        p = t['params']
        if t['name'] == 'Timestamp':
            s = 'Timestamp("%s")' % p['fmt']
        elif p:
            s = '%s(%s)' % (t['name'], ', '.join('%s=%s' % (k, v) for k, v in sorted(p.items())))
        else:
            s = t['name']
    elif t['k'] == 'list':
        args = [_type_text(t['of'], ns)]
        if t['min_items'] is not None:
            args.append('min_items=%d' % t['min_items'])
        if t['max_items'] is not None:
            args.append('max_items=%d' % t['max_items'])
        s = 'List(%s)' % ', '.join(args)
    elif t['k'] == 'map':
        s = 'Map(String, %s)' % _type_text(t['of'], ns)
    else:
        s = t['name'] if t['ns'] == ns else '%s.%s' % (t['ns'], t['name'])
    return s + ('?' if nullable else '')


def render(model, rng=None):
    """[(path, text)]; definitions of a namespace in a shuffled order (forward references are legal)"""
    out = []
    cfg = ['namespace stone_cfg', '', 'struct Route']
    for name, typ, default in model['route_attrs']:
        cfg.append('    %s %s = %s' % (name, typ, default))
    out.append(('stone_cfg.stone', '\n'.join(cfg) + '\n'))
    for ns in model['namespaces']:
        lines = ['namespace %s' % ns['name']]
        if ns['doc']:
            lines.append('    "%s"' % ns['doc'])
        lines.append('')
        for imp in ns['imports']:
            lines.append('import %s' % imp)
        lines.append('')
        blocks = []
        for a in ns['aliases']:
            b = ['alias %s = %s' % (a['name'], _type_text(a['type'], ns['name']))]
            if a['doc']:
                b.append('    "%s"' % a['doc'])
            blocks.append(b)
        for s in ns['structs']:
            b = ['struct %s%s' % (s['name'], (' extends ' + s['parent']) if s['parent'] else '')]
            if s['doc']:
                b.append('    "%s"' % s['doc'])
            for f in s['fields']:
                b.append('    %s %s%s' % (f['name'], _type_text(f['type'], ns['name'], f['nullable']),
                                         (' = ' + f['default']) if f['default'] else ''))
                if f['doc']:
                    b.append('        "%s"' % f['doc'])
            if len(b) == 1:
                b.append('    "no fields"')
            blocks.append(b)
        for u in ns['unions']:
            b = ['%s %s%s' % ('union_closed' if u['closed'] else 'union', u['name'], (' extends ' + u['parent']) if u['parent'] else '')]
            if u['doc']:
                b.append('    "%s"' % u['doc'])
            for t in u['tags']:
                b.append('    %s%s' % (t['name'], (' ' + _type_text(t['type'], ns['name'], t['nullable'])) if t['type'] else ''))
                if t['doc']:
                    b.append('        "%s"' % t['doc'])
            blocks.append(b)
        for r in ns['routes']:
            b = ['route %s%s(%s, %s, %s)%s' % (r['name'], '' if r['version'] == 1 else ':%d' % r['version'],
                                              _type_text(r['arg'], ns['name']), _type_text(r['result'], ns['name']),
                                              _type_text(r['error'], ns['name']), ' deprecated' if r['deprecated'] else '')]
            if r['doc']:
                b.append('    "%s"' % r['doc'])
            if r['attrs']:
                b.append('    attrs')
                for k, v in sorted(r['attrs'].items()):
                    b.append('        %s = %s' % (k, v))
            blocks.append(b)
        if rng is not None:
            rng.shuffle(blocks)
        for b in blocks:
            lines.extend(b)
            lines.append('')
        out.append((ns['name'] + '.stone', '\n'.join(lines)))
    return out


# ---------------------------------------------------------------- comparison

def _type_of_ir(t):
    """the model-shaped description of an IR type"""
    import stone.ir.data_types as ird
    nullable = False
    if isinstance(t, ird.Nullable):
        nullable = True
        t = t.data_type
    if isinstance(t, ird.List):
        d = {'k': 'list', 'of': _type_of_ir(t.data_type)[0], 'min_items': t.min_items, 'max_items': t.max_items}
    elif isinstance(t, ird.Map):
        d = {'k': 'map', 'of': _type_of_ir(t.value_data_type)[0]}
    elif isinstance(t, (ird.Struct, ird.Union, ird.Alias)):
        d = {'k': 'ref', 'ns': t.namespace.name, 'name': t.name,
             'kind': 'alias' if isinstance(t, ird.Alias) else 'struct' if isinstance(t, ird.Struct) else 'union'}
    else:
        params = {}
        for k in ('min_length', 'max_length', 'min_value', 'max_value'):
            if getattr(t, k, None) is not None:
                params[k] = getattr(t, k)
        if isinstance(t, ird.Timestamp):
            params['fmt'] = t.format
        d = {'k': 'prim', 'name': t.name, 'params': params}
    return d, nullable


def _default_text(f):
    if not f.has_default:
        return None
    d = f.default
    if hasattr(d, 'tag_name'):
        return d.tag_name
    if isinstance(d, bool):
        return 'true' if d else 'false'
    if isinstance(d, str):
        return '"%s"' % d
    return repr(d)


def compare(model, api, problems):
    import stone.ir.data_types as ird
    want_ns = sorted(ns['name'] for ns in model['namespaces'])
    if list(api.namespaces) != want_ns:
        problems.append('namespaces %r, declared (alphabetical) %r' % (list(api.namespaces), want_ns))
        return False
    for ns in model['namespaces']:
        n = api.namespaces[ns['name']]
        if (n.doc or None) != ((ns['doc'] + '\n') if ns['doc'] else None):
            problems.append('%s: namespace doc %r' % (ns['name'], n.doc))
        # exactly the declared names, alphabetical
        for label, got, want in (('data types', [d.name for d in n.data_types], sorted([s['name'] for s in ns['structs']] + [u['name'] for u in ns['unions']])),
                                 ('aliases', [a.name for a in n.aliases], sorted(a['name'] for a in ns['aliases'])),
                                 ('routes', [(r.name, r.version) for r in n.routes], sorted((r['name'], r['version']) for r in ns['routes']))):
            if got != want:
                problems.append('%s: %s %r, declared (alphabetical) %r' % (ns['name'], label, got, want))
        if set(n.data_type_by_name) != set(d.name for d in n.data_types) or set(n.alias_by_name) != set(a.name for a in n.aliases):
            problems.append('%s: by-name tables disagree with the listings' % ns['name'])
        if sorted(x.name for x in n.get_imported_namespaces()) != sorted(ns['imports']):
            problems.append('%s: imports %r, declared %r' % (ns['name'], [x.name for x in n.get_imported_namespaces()], ns['imports']))
        for a in ns['aliases']:
            ia = n.alias_by_name.get(a['name'])
            if ia is None:
                continue
            if _type_of_ir(ia.data_type) != (_strip_kind(a['type']), False) and _type_of_ir(ia.data_type)[0] != a['type']:
                problems.append('%s.%s: alias target %r, declared %r' % (ns['name'], a['name'], _type_of_ir(ia.data_type), a['type']))
            if (ia.doc or None) != a['doc']:
                problems.append('%s.%s: alias doc' % (ns['name'], a['name']))
        smodel = dict((s['name'], s) for s in ns['structs'])
        for s in ns['structs']:
            d = n.data_type_by_name.get(s['name'])
            if not isinstance(d, ird.Struct):
                problems.append('%s.%s: not a struct in the description' % (ns['name'], s['name']))
                continue
            if (d.parent_type.name if d.parent_type else None) != s['parent']:
                problems.append('%s.%s: parent' % (ns['name'], s['name']))
            if (d.doc or None) != (s['doc'] if s['fields'] or s['doc'] else 'no fields'):
                problems.append('%s.%s: doc %r' % (ns['name'], s['name'], d.doc))
            _cmp_fields(ns['name'] + '.' + s['name'], d.fields, s['fields'], problems, True)
            # documented listing: inherited first, required before optional
            chain = []
            cur = s
            while cur is not None:
                chain.insert(0, cur)
                cur = smodel.get(cur['parent']) if cur['parent'] else None
            inherited_first = [f for c in chain for f in c['fields']]
            req = [f['name'] for f in inherited_first if not f['nullable'] and not f['default']]
            opt = [f['name'] for f in inherited_first if f['nullable'] or f['default']]
            if [f.name for f in d.all_fields] != req + opt:
                problems.append('%s.%s: all_fields %r, documented order %r' % (ns['name'], s['name'], [f.name for f in d.all_fields], req + opt))
        umodel = dict((u['name'], u) for u in ns['unions'])
        for u in ns['unions']:
            d = n.data_type_by_name.get(u['name'])
            if not isinstance(d, ird.Union):
                problems.append('%s.%s: not a union in the description' % (ns['name'], u['name']))
                continue
            if d.closed != u['closed'] or (d.parent_type.name if d.parent_type else None) != u['parent']:
                problems.append('%s.%s: closed / parent' % (ns['name'], u['name']))
            if (d.doc or None) != u['doc']:
                problems.append('%s.%s: union doc %r' % (ns['name'], u['name'], d.doc))
            want = [{'name': t['name'], 'type': t['type'] or {'k': 'prim', 'name': 'Void', 'params': {}}, 'nullable': t['nullable'],
                     'default': None, 'doc': t['doc']} for t in u['tags']]
            # the documented implicit member: `other` for an open union that does not inherit one
            root_open = not u['closed'] and not (u['parent'] and not umodel[u['parent']]['closed'])
            got = list(d.fields)
            if root_open:
                if not got or got[-1].name != 'other' or not isinstance(got[-1].data_type, ird.Void) or d.catch_all_field is not got[-1]:
                    problems.append('%s.%s: open union without the implicit catch-all `other`' % (ns['name'], u['name']))
                got = got[:-1]
            _cmp_fields(ns['name'] + '.' + u['name'], got, want, problems, False)
        for r in ns['routes']:
            ir = n.routes_by_name[r['name']].at_version.get(r['version']) if r['name'] in n.routes_by_name else None
            if ir is None:
                problems.append('%s: route %s:%d missing' % (ns['name'], r['name'], r['version']))
                continue
            for label, got, want in (('arg', ir.arg_data_type, r['arg']), ('result', ir.result_data_type, r['result']), ('error', ir.error_data_type, r['error'])):
                if _strip_kind(_type_of_ir(got)[0]) != _strip_kind(want):
                    problems.append('%s: route %s %s type' % (ns['name'], r['name'], label))
            if bool(ir.deprecated) != r['deprecated'] or (ir.doc or None) != r['doc']:
                problems.append('%s: route %s deprecated / doc' % (ns['name'], r['name']))
            # declared attrs plus the schema defaults of the unspecified ones
            want_attrs = {'auth': 'user', 'beta': False}
            for k, v in r['attrs'].items():
                want_attrs[k] = json.loads(v)
            if dict(ir.attrs) != want_attrs:
                problems.append('%s: route %s attrs %r, declared %r' % (ns['name'], r['name'], dict(ir.attrs), want_attrs))
        # linearizations: every parent before its children, every alias target before the alias
        order = [d.name for d in n.linearize_data_types()]
        if sorted(order) != sorted(d.name for d in n.data_types):
            problems.append('%s: linearize_data_types is not a permutation of the data types' % ns['name'])
        for d in n.data_types:
            if d.parent_type is not None and d.parent_type.namespace is n and order.index(d.parent_type.name) > order.index(d.name):
                problems.append('%s: linearization puts %s before its parent' % (ns['name'], d.name))
        aorder = [a.name for a in n.linearize_aliases()]
        for a in n.aliases:
            t = a.data_type
            while isinstance(t, (ird.Nullable, ird.List)):
                t = t.data_type
            if isinstance(t, ird.Alias) and t.namespace is n and t.name in aorder and aorder.index(t.name) > aorder.index(a.name):
                problems.append('%s: alias linearization puts %s before its target %s' % (ns['name'], a.name, t.name))
    return not problems


def _strip_kind(t):
    if isinstance(t, dict):
        return dict((k, _strip_kind(v)) for k, v in t.items() if k != 'kind')
    return t


def _cmp_fields(where, got, want, problems, with_defaults):
    if [f.name for f in got] != [f['name'] for f in want]:
        problems.append('%s: fields %r, declared %r' % (where, [f.name for f in got], [f['name'] for f in want]))
        return
    for f, w in zip(got, want):
        t, nullable = _type_of_ir(f.data_type)
        if _strip_kind(t) != _strip_kind(w['type']) or nullable != w['nullable']:
            problems.append('%s.%s: type %r%s, declared %r%s' % (where, f.name, t, '?' if nullable else '', w['type'], '?' if w['nullable'] else ''))
        if (f.doc or None) != w['doc']:
            problems.append('%s.%s: doc' % (where, f.name))
        if with_defaults and _default_text(f) != w['default']:
            problems.append('%s.%s: default %r, declared %r' % (where, f.name, _default_text(f), w['default']))


def build_specs(model, seed):
    import random
    return [tuple(p) for p in render(model, random.Random(seed))]


class SpecList(list):
    """the specs argument, carrying the model it was rendered from"""
    model = None


def build_spec_list(model, seed):
    s = SpecList(build_specs(model, seed))
    s.model = model
    return s
