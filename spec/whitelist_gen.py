"""Native-only scenario builder and the independent reference for C20 (route whitelist closure).
The reference closure is computed on the UNFILTERED API description over the edge kinds the statement
lists: field types through lists, maps, nullables and aliases; parents; enumerated subtypes; tag defaults;
doc references to types, fields and routes; across namespaces."""
import re

SPECS = [
    ('w1.stone', '''namespace w1
    "Namespace doc mentioning :type:`NsDoc`."

import w2

alias AId = String(min_length=1)
alias AList = List(Leaf)
alias AChain = AList
alias AUnused = Unused1

struct NsDoc
    n Int32

struct Leaf
    v Int32

struct Unused1
    u Int32

struct Unused2
    "refers to :type:`Unused1`"
    u Int32

struct Parent
    p String

struct Child extends Parent
    c AId

struct Tree
    union
        a TreeA
        b TreeB
    t String

struct TreeA extends Tree
    leaf Leaf

struct TreeB extends Tree
    other w2.Far?

union Tags
    t1
    t2 Leaf

struct WithDefault
    tag Tags = t1
    m Map(String, List(Child?))?

struct DocRefs
    "See :type:`Parent`, :field:`Leaf.v`, :type:`w2.Far` and :route:`r_doc`."
    d Int32
        "field doc with :type:`NsDoc`"

struct ViaAlias
    l AChain
    x AId

struct Arg1
    w WithDefault
        "field doc: continue with :route:`r_only_doc`"
    ad ADoc?

alias ADoc = String
    "alias doc mentioning :route:`r_alias_doc` and :type:`AliasDocType`"

struct AliasDocType
    z Int32

struct AliasDocArg
    y AliasDocDeep

struct AliasDocDeep
    q String

struct OnlyDocArg
    cur OnlyDocCursor

struct OnlyDocCursor
    c String

struct OnlyDocRes
    r Int32

union OnlyDocErr
    bad

route r_only_doc(OnlyDocArg, OnlyDocRes, OnlyDocErr)

route r_alias_doc(AliasDocArg, Void, Void)

struct Res1
    t Tree

union Err1
    e1
        "a tag without a value still has a doc: :type:`VoidDocType`, :route:`r_void_doc`"
    e2 DocRefs

struct VoidDocType
    vd Int32

struct VoidDocArg
    va String

route r_void_doc(VoidDocArg, Void, Void)

route r1(Arg1, Res1, Err1)
    "Route doc with :type:`Unused2`."

route r1:2(ViaAlias, Void, Void)

route r_doc(Leaf, Void, Void)

route r_void(Void, Void, Void)

route r_far(w2.Far, w2.FarU, Void)

struct FarChild extends w2.FarBase
    fc Int32

route r_farchild(FarChild, Void, Void)
'''),
    ('w2.stone', '''namespace w2

struct Far
    f FarLeaf?

union FarU
    fu1
    fu2 FarDeep

struct FarDeep
    "see :route:`r2b`"
    fd List(FarLeaf)

struct FarLeaf
    x Int32

struct FarUnused
    x Int32

struct FarBase
    fb Int32
        "a field inherited across namespaces; its doc is read in its own namespace: :type:`FarDocOnly`"

struct FarDocOnly
    z Int32

alias FarAlias = FarUnused

route r2(FarDeep, Void, Void)

route r2b(Void, Far, Void)
'''),
]

ROUTES = {'w1': ['r1', 'r1:2', 'r_doc', 'r_void', 'r_far', 'r_only_doc', 'r_alias_doc', 'r_void_doc', 'r_farchild'], 'w2': ['r2', 'r2b']}
TYPES = {'w1': ['NsDoc', 'Leaf', 'Unused1', 'Unused2', 'Parent', 'Child', 'Tree', 'TreeA', 'TreeB', 'Tags', 'WithDefault',
                'DocRefs', 'ViaAlias', 'Arg1', 'Res1', 'Err1', 'AliasDocType', 'AliasDocArg', 'AliasDocDeep', 'OnlyDocArg',
                'OnlyDocCursor', 'OnlyDocRes', 'OnlyDocErr', 'VoidDocType', 'VoidDocArg', 'FarChild'],
         'w2': ['Far', 'FarU', 'FarDeep', 'FarLeaf', 'FarUnused', 'FarBase', 'FarDocOnly']}


def gen_whitelist(rng):
    rw, dw = {}, {}
    for ns in ('w1', 'w2'):
        r = rng.random()
        if r < 0.25:
            continue
        if r < 0.35:
            rw[ns] = ['*']
        else:
            rw[ns] = [x for x in ROUTES[ns] if rng.random() < 0.35]
    for ns in ('w1', 'w2'):
        if rng.random() < 0.4:
            dw[ns] = [x for x in TYPES[ns] if rng.random() < 0.15]
    return {'route_whitelist': rw, 'datatype_whitelist': dw}


def build_specs():
    return [tuple(p) for p in SPECS]


def build_whitelist(w):
    return w


# ---------------------------------------------------------------- the reference

_DOC = re.compile(r':(type|field|route):`([^`]*)`')


def _full_api():
    from stone.frontend.frontend import specs_to_ir
    return specs_to_ir(build_specs())


def _strip(dt):
    """the user-defined types (and aliases on the way) a type expression mentions"""
    import stone.ir.data_types as ird
    out = []
    stack = [dt]
    while stack:
        t = stack.pop()
        if isinstance(t, ird.Alias):
            out.append(('alias', t.namespace.name, t.name))
            stack.append(t.data_type)
        elif isinstance(t, (ird.Nullable, ird.List)):
            stack.append(t.data_type)
        elif isinstance(t, ird.Map):
            stack.append(t.key_data_type)
            stack.append(t.value_data_type)
        elif isinstance(t, (ird.Struct, ird.Union)):
            out.append(('type', t.namespace.name, t.name))
    return out


def _doc_refs(api, doc, ns):
    out = []
    if not doc:
        return out
    for tag, val in _DOC.findall(doc):
        if tag == 'type':
            n, name = val.split('.', 1) if '.' in val else (ns, val)
            if name in api.namespaces[n].data_type_by_name:
                out.append(('type', n, name))
            elif name in api.namespaces[n].alias_by_name:
                out.append(('alias', n, name))
        elif tag == 'field' and '.' in val:
            out.append(('type', ns, val.split('.', 1)[0]))
        elif tag == 'route':
            n, name = val.split('.', 1) if '.' in val else (ns, val)
            out.append(('route', n, name if ':' in name else name))
    return out


def _route_key(r):
    return r.name if r.version == 1 else '%s:%d' % (r.name, r.version)


def successors(api, node):
    kind, ns, name = node
    nsobj = api.namespaces[ns]
    out = []
    if kind == 'type':
        dt = nsobj.data_type_by_name[name]
        for f in dt.fields:
            out.extend(_strip(f.data_type))
            out.extend(_doc_refs(api, f.doc, ns))
        if dt.parent_type is not None:
            out.append(('type', dt.parent_type.namespace.name, dt.parent_type.name))
        import stone.ir.data_types as ird
        if isinstance(dt, ird.Struct) and dt.has_enumerated_subtypes():
            for sub in dt.get_enumerated_subtypes():
                out.extend(_strip(sub.data_type))
        out.extend(_doc_refs(api, dt.doc, ns))
    elif kind == 'alias':
        al = nsobj.alias_by_name[name]
        out.extend(_strip(al.data_type))
        out.extend(_doc_refs(api, al.doc, ns))
    elif kind == 'route':
        rn, ver = (name.split(':') + ['1'])[:2]
        r = nsobj.routes_by_name[rn].at_version[int(ver)]
        for t in (r.arg_data_type, r.result_data_type, r.error_data_type):
            out.extend(_strip(t))
        out.extend(_doc_refs(api, r.doc, ns))
    return out


def reference_closure(api, wl):
    seeds = []
    for ns, reprs in wl.get('route_whitelist', {}).items():
        names = [_route_key(r) for r in api.namespaces[ns].routes] if reprs == ['*'] else list(reprs)
        seeds.extend(('route', ns, n) for n in names)
        seeds.extend(_doc_refs(api, api.namespaces[ns].doc, ns))
    for ns, names in wl.get('datatype_whitelist', {}).items():
        seeds.extend(('type', ns, n) for n in names)
        seeds.extend(_doc_refs(api, api.namespaces[ns].doc, ns))
    seen = set()
    stack = list(seeds)
    while stack:
        n = stack.pop()
        if n in seen:
            continue
        seen.add(n)
        stack.extend(successors(api, n))
    return seen


def check(wl, filtered, problems):
    """the filtered API against the reference closure of the full one"""
    full = _full_api()
    clo = reference_closure(full, wl)
    want_types = set((ns, n) for k, ns, n in clo if k == 'type')
    want_routes = set((ns, n) for k, ns, n in clo if k == 'route')
    got_types = set((ns.name, d.name) for ns in filtered.namespaces.values() for d in ns.data_types)
    got_routes = set((ns.name, _route_key(r)) for ns in filtered.namespaces.values() for r in ns.routes)
    for t in sorted(want_types - got_types):
        problems.append('type %s.%s is in the dependency closure but was removed' % t)
    for t in sorted(got_types - want_types):
        problems.append('type %s.%s is retained but not in the closure (not minimal)' % t)
    for r in sorted(want_routes - got_routes):
        problems.append('route %s.%s is whitelisted / referenced but was removed' % r)
    # no retained declaration refers to a removed type
    for ns in filtered.namespaces.values():
        for d in ns.data_types:
            for k, n2, name in successors(filtered_view(filtered), ('type', ns.name, d.name)):
                if k == 'type' and (n2, name) not in got_types:
                    problems.append('retained type %s.%s refers to removed type %s.%s' % (ns.name, d.name, n2, name))
        for a in ns.aliases:
            for k, n2, name in _strip(a.data_type):
                if k == 'type' and (n2, name) not in got_types:
                    problems.append('retained alias %s.%s refers to removed type %s.%s' % (ns.name, a.name, n2, name))
        for r in ns.routes:
            for t in (r.arg_data_type, r.result_data_type, r.error_data_type):
                for k, n2, name in _strip(t):
                    if k == 'type' and (n2, name) not in got_types:
                        problems.append('retained route %s.%s refers to removed type %s.%s' % (ns.name, _route_key(r), n2, name))
        # by-name tables agree with the lists
        if set(ns.data_type_by_name) != set(d.name for d in ns.data_types):
            problems.append('data_type_by_name of %s disagrees with data_types' % ns.name)
    return not problems


class filtered_view:
    """successors() on the filtered API must not fail on names that were removed: look them up in what is there"""

    def __init__(self, api):
        self.namespaces = api.namespaces


def generated_code_loads(filtered):
    """C20: "code generated from the filtered API loads exactly like code from the full API": the python_types
    output of the filtered description imports"""
    import importlib
    import os
    import shutil
    import sys
    import tempfile
    from stone.compiler import Compiler
    import stone.backends.python_types as backend
    d = tempfile.mkdtemp(prefix='verif_wl_')
    pkg = 'vwl_%d_%d' % (os.getpid(), _COUNTER[0])
    _COUNTER[0] += 1
    try:
        out = os.path.join(d, pkg)
        os.makedirs(out)
        open(os.path.join(out, '__init__.py'), 'w').close()
        Compiler(filtered, backend, ['-p', pkg], out, clean_build=False).build()
        sys.path.insert(0, d)
        try:
            for ns in sorted(filtered.namespaces):
                importlib.import_module('%s.%s' % (pkg, ns))
        finally:
            sys.path.remove(d)
            for m in [m for m in sys.modules if m == pkg or m.startswith(pkg + '.')]:
                del sys.modules[m]
        return True
    finally:
        shutil.rmtree(d, True)


_COUNTER = [0]
