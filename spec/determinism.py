"""Native-only: run a built-in backend on the corpus specs in this process and in fresh processes with other
hash seeds; compare the bytes of every file (C12)."""
import hashlib
import json
import os
import shutil
import subprocess
import sys
import tempfile

BACKENDS = {
    'python_types': ['-p', 'pkg'],
    'python_type_stubs': ['-p', 'pkg'],
    'python_client': ['-m', 'base', '-c', 'Client', '-t', 'pkg'],
    'js_types': ['types.js'],
    'js_client': ['client.js', '-c', 'Client'],
    # option sets with several repeated flags (order-carrying options)
    'js_client+attrs': ['client.js', '-c', 'Client', '-a', 'auth', '-a', 'weight', '-a', 'beta', '-a', 'host', '-a', 'ratio'],
    'python_client+attrs': ['-m', 'base', '-c', 'Client', '-t', 'pkg', '-a', 'auth', '-a', 'weight', '-a', 'beta', '-a', 'host'],
    'tsd_types': ['types_template.d.ts'],
    'tsd_client': ['client_template.d.ts', 'client.d.ts'],
    # the Jinja-template backends (importable by the native interpreter, which has jinja2)
    'swift_types': [],
    'obj_c_types': [],
    'obj_c_client': ['-m', 'Base', '-c', 'Client', '-t', 'Transport', '-y', '{}', '-z', '{"rpc":"RpcStyle"}'],
    'tsd_client+attrs': ['client_template.d.ts', 'client.d.ts', '-a', 'auth', '-a', 'weight', '-a', 'beta', '-a', 'host', '-a', 'ratio'],
}
# template files are inputs of the TypeScript backends: (file name, content)
TEMPLATES = {'tsd_types': ('types_template.d.ts', '/*TYPES*/\n'), 'tsd_client': ('client_template.d.ts', '/*ROUTES*/\n')}


def with_template(backend_name, folder):
    """the argument list of the backend, its template argument replaced by a file written into `folder`"""
    args = list(BACKENDS[backend_name])
    t = TEMPLATES.get(module_of(backend_name))
    if t is not None:
        tpl = os.path.join(folder, t[0])
        open(tpl, 'w').write(t[1])
        args[0] = tpl
    return args


def module_of(name):
    return name.split('+')[0]


def spec_set(which):
    import spec.corpus as corpus
    import spec.cli_gen as cli_gen
    if which == 'annotated':
        return [('cpc.stone', corpus.SPECS['cpc'])]
    if which == 'corpus':
        return [(n + '.stone', corpus.SPECS[n]) for n in ('cpa', 'cpb')]
    return list(cli_gen.SPECS)


def generate(backend_name, which, outdir):
    """run the backend in THIS process; {relative path: sha256 of the bytes}"""
    import importlib
    from stone.frontend.frontend import specs_to_ir
    from stone.compiler import Compiler
    backend = importlib.import_module('stone.backends.' + module_of(backend_name))
    api = specs_to_ir(spec_set(which))
    args = with_template(backend_name, os.path.join(outdir, '..'))
    Compiler(api, backend, args, outdir, clean_build=False).build()
    out = {}
    for dp, dns, fns in os.walk(outdir):
        for fn in fns:
            p = os.path.join(dp, fn)
            out[os.path.relpath(p, outdir)] = hashlib.sha256(open(p, 'rb').read()).hexdigest()
    return out


def generate_in_subprocess(backend_name, which, hashseed):
    d = tempfile.mkdtemp(prefix='verif_det_')
    try:
        out = os.path.join(d, 'out')
        os.makedirs(out)
        env = dict(os.environ)
        env['PYTHONHASHSEED'] = str(hashseed)
        code = ('import sys, json; sys.path[:0] = %r; import spec.determinism as D; '
                'print(json.dumps(D.generate(%r, %r, %r)))' % (sys.path[:3], backend_name, which, out))
        pr = subprocess.run([sys.executable, '-c', code], capture_output=True, text=True, env=env, timeout=600)
        if pr.returncode != 0:
            raise RuntimeError('generation failed under hash seed %s: %s' % (hashseed, pr.stderr[-600:]))
        return json.loads(pr.stdout.strip().split('\n')[-1])
    finally:
        shutil.rmtree(d, True)


class Job:
    def __init__(self, backend_name, which):
        self.backend_name = backend_name
        self.which = which


def build_job(backend_name, which):
    return Job(backend_name, which)
