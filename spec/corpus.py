"""GEN-WF corpus: small Stone specs compiled with the frontend and the
python_types backend of the tree under verification into a temporary directory
(removed at exit) and imported.  Used natively only: (a) the SpecPy table
predicates (wf_struct_def, ...) are evaluated on every generated class -- the
bounded stand-in for the assumption that the generator emits well-formed
reflection tables; (b) values of the generated classes feed the native oracle
comparison of the runtime contracts.  Nothing here is part of a proof."""
import atexit
import importlib
import os
import shutil
import sys
import tempfile

SPECS = {
    'cpa': '''
namespace cpa

alias Id = String(min_length=1, max_length=4, pattern="[a-z]+")
alias IdList = List(Id, max_items=3)

struct Empty
    "no fields at all"

struct Prims
    b Boolean
    i32 Int32(min_value=-5, max_value=5)
    u64 UInt64
    f32 Float32
    f64 Float64(min_value=0.0, max_value=1.0)
    s String(max_length=3)
    byt Bytes
    ts Timestamp("%Y-%m-%dT%H:%M:%SZ")
    example default
        b = true
        i32 = 1
        u64 = 2
        f32 = 1.5
        f64 = 0.5
        s = "ab"
        byt = "YQ=="
        ts = "2020-01-02T03:04:05Z"

struct Opt
    a Int64 = 7
    n String?
    l List(Int32)?
    m Map(String, Float64)?
    e Empty?
    flag Boolean = false
    label Id = "x"

struct Nest
    o Opt
    oo Opt?
    ids IdList
    lm List(Map(String, Opt))
    u U
    uu U?

struct Base
    union
        one Sub1
        two Sub2
    x Int32

struct Sub1 extends Base
    y String

struct Sub2 extends Base
    z Float64?

struct Deep extends Opt
    w Boolean = true

struct Closed
    union_closed
        k Kid
    q Int32

struct Kid extends Closed
    r String = "r"

union U
    v1
    v2
    n Int64
    s String?
    o Opt
    on Opt?
    e Empty?
    b Base
    bn Base?
    cl Closed
    cln Closed?
    w W
    wn W?
    l List(Opt)
    lb List(Base)?

union_closed W
    a
    b Boolean

union V extends U
    extra Int32
    deeper W?

struct Holder
    base Base
    bases List(Base)
    v V
    w W = a
''',
    'cpc': '''
namespace cpc

annotation InternalOnly = Omitted("internal")
annotation AlphaOnly = Omitted("alpha")
annotation HashIt = RedactedHash()
annotation BlotIt = RedactedBlot()
annotation PartBlot = RedactedBlot("(keep-)(?:.*)")
annotation PartHash = RedactedHash("(keep-)(?:.*)")

alias Secret = String
    @HashIt

alias SecretList = List(Secret)

struct P
    pub String
    internal_f String
        @InternalOnly
    alpha_n Int64?
        @AlphaOnly
    sec String
        @BlotIt
    sech String?
        @HashIt
    secl List(String)
        @BlotIt
    secm Map(String, String)
        @HashIt
    both String?
        @InternalOnly
        @BlotIt
    ali Secret
    alil SecretList
    alim Map(String, List(Secret))?
    part String?
        @PartBlot
    parth String?
        @PartHash
    num Int64?
        @HashIt

struct Q extends P
    q_int String?
        @InternalOnly
    q_alpha P?
        @AlphaOnly

struct R
    ps List(P)
    pm Map(String, Q)?
    u Tagged

union Tagged
    v
    t_int String
        @InternalOnly
    t_alpha P
        @AlphaOnly
    t_sec String
        @HashIt
    t_nsec String?
        @BlotIt
    t_lsec List(String)?
        @HashIt
    t_msec Map(String, String)?
        @BlotIt
    t_nali Secret?
    t_p P
    t_q Q?
    t_g G3

struct G1
    g1 String
    g1_int String?
        @InternalOnly

struct G2 extends G1
    g2 String?

struct G3 extends G2
    g3_int String?
        @InternalOnly
    g3_alpha String?
        @AlphaOnly

struct E1
    union
        e2 E2
        e3 E3
    e1 String
    e1_int String?
        @InternalOnly

struct E2 extends E1
    e2f String?
        @BlotIt

struct E3 extends E1
    e3_alpha String?
        @AlphaOnly
    e3_int String?
        @InternalOnly

struct Holder13
    e E1
    es List(E1)
    g G3?
''',
    'cpb': '''
namespace cpb

import cpa

struct Far extends cpa.Opt
    far cpa.U = v1
    fars Map(String, cpa.Nest)?

union FarU extends cpa.W
    f Far
''',
}

_state = {}


class CorpusBuildError(Exception):
    """the corpus specs (valid Stone) could not be compiled by the frontend / python_types backend of the tree
    under verification, or the generated modules do not import"""


def load():
    """compile + import the corpus once per process"""
    if 'mods' in _state:
        return _state['mods']
    if 'error' in _state:
        raise CorpusBuildError(_state['error'])
    try:
        return _load()
    except Exception:
        import traceback
        _state['error'] = traceback.format_exc()[-1500:]
        raise CorpusBuildError(_state['error'])


def _load():
    from stone.frontend.frontend import specs_to_ir
    from stone.compiler import Compiler
    import stone.backends.python_types as backend
    d = tempfile.mkdtemp(prefix='verif_corpus_')
    atexit.register(shutil.rmtree, d, True)
    pkg = 'vcorpus_%d' % os.getpid()
    out = os.path.join(d, pkg)
    os.makedirs(out)
    open(os.path.join(out, '__init__.py'), 'w').close()
    api = specs_to_ir([(name + '.stone', text) for name, text in sorted(SPECS.items())])
    c = Compiler(api, backend, ['-p', pkg], out, clean_build=False)
    c.build()
    sys.path.insert(0, d)
    mods = {}
    for name in sorted(SPECS):
        mods[name] = importlib.import_module('%s.%s' % (pkg, name))
    _state['mods'] = mods
    _state['api'] = api
    _state['pkg'] = pkg
    return mods


def namespace():
    return dict(load())


def package():
    load()
    return _state['pkg']


def api():
    load()
    return _state['api']


# namespaces whose classes carry per-permission tables / redactors: outside the no-permission, no-redaction
# scope (ctx_ok) of the C05 / C06 contracts and of GEN-WF as stated there; used by the C13 check only
ANNOTATED = ('cpc',)


def struct_classes(annotated=False):
    import stone.backends.python_rsrc.stone_base as bb
    out = []
    for name, m in sorted(load().items()):
        if (name in ANNOTATED) != annotated:
            continue
        for k, v in sorted(vars(m).items()):
            if isinstance(v, type) and issubclass(v, bb.Struct) and v is not bb.Struct and v.__module__ == m.__name__:
                out.append(('%s.%s' % (name, k), v))
    return out


def union_classes(annotated=False):
    import stone.backends.python_rsrc.stone_base as bb
    out = []
    for name, m in sorted(load().items()):
        if (name in ANNOTATED) != annotated:
            continue
        for k, v in sorted(vars(m).items()):
            if isinstance(v, type) and issubclass(v, bb.Union) and v is not bb.Union and v.__module__ == m.__name__:
                out.append(('%s.%s' % (name, k), v))
    return out


def validators(annotated=False):
    """(expression, validator) for every module-level *_validator"""
    import stone.backends.python_rsrc.stone_validators as bv
    out = []
    for name, m in sorted(load().items()):
        if (name in ANNOTATED) != annotated:
            continue
        for k, v in sorted(vars(m).items()):
            if k.endswith('_validator') and isinstance(v, bv.Validator):
                out.append(('%s.%s' % (name, k), v))
    return out


def class_expr(cls):
    """python expression (in namespace()) denoting a generated class"""
    for name, m in load().items():
        if cls.__module__ == m.__name__:
            return '%s.%s' % (name, cls.__name__)
    return None


def validator_expr(v):
    """python expression denoting a validator object of the corpus (module-level
    validators, field validators and tag validators, and what they wrap)"""
    if 'vexpr' not in _state:
        import stone.backends.python_rsrc.stone_validators as bv
        table = {}

        def walk(expr, val, depth=0):
            if id(val) in table or depth > 6:
                return
            table[id(val)] = expr
            if isinstance(val, bv.Nullable):
                walk(expr + '.validator', val.validator, depth + 1)
            elif isinstance(val, bv.List):
                walk(expr + '.item_validator', val.item_validator, depth + 1)
            elif isinstance(val, bv.Map):
                walk(expr + '.key_validator', val.key_validator, depth + 1)
                walk(expr + '.value_validator', val.value_validator, depth + 1)
        for ann in (False, True):
            for e, vv in validators(ann):
                walk(e, vv)
            for e, c in struct_classes(ann):
                for k, (fname, fv) in enumerate(c._all_fields_):
                    walk('%s._all_fields_[%d][1]' % (e, k), fv)
            for e, c in union_classes(ann):
                for tag, tv in sorted(c._tagmap.items()):
                    walk('%s._tagmap[%r]' % (e, tag), tv)
        _state['vexpr'] = table
    return _state['vexpr'].get(id(v))


def compile_package(specs, tag):
    """compile {namespace: text} with the tree's frontend + python_types into a package of its own
    (used for pairs of spec versions); returns {namespace: module}.  Cached per tag."""
    key = 'pkg:' + tag
    if key in _state:
        return _state[key]
    try:
        from stone.frontend.frontend import specs_to_ir
        from stone.compiler import Compiler
        import stone.backends.python_types as backend
        d = tempfile.mkdtemp(prefix='verif_pkg_')
        atexit.register(shutil.rmtree, d, True)
        pkg = 'vpkg_%s_%d' % (tag, os.getpid())
        out = os.path.join(d, pkg)
        os.makedirs(out)
        open(os.path.join(out, '__init__.py'), 'w').close()
        api = specs_to_ir([(name + '.stone', text) for name, text in sorted(specs.items())])
        Compiler(api, backend, ['-p', pkg], out, clean_build=False).build()
        sys.path.insert(0, d)
        mods = dict((name, importlib.import_module('%s.%s' % (pkg, name))) for name in sorted(specs))
    except Exception:
        import traceback
        raise CorpusBuildError(traceback.format_exc()[-1500:])
    _state[key] = mods
    return mods
