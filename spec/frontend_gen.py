"""Native-only generator for the frontend entry point (C03): valid specs and token-level edits of them."""
import re

BASE = {
    'a.stone': '''namespace a
    "Namespace doc."

import b

alias Id = String(min_length=1, max_length=8, pattern="[a-z]+")

struct Base
    "Doc of :type:`Base` and :field:`x`."
    union
        one Sub1
        two Sub2
    x Int32 = 3
    example default
        one = default
    example other
        two = default

struct Sub1 extends Base
    y String?
    f Float64(min_value=0.0, max_value=1.0) = 0.5
    example default
        x = 1
        y = "s"

struct Sub2 extends Base
    z List(Id, max_items=3)
    m Map(String, Int64)?
    example default
        z = ["ab"]

union U
    v1
        "void tag"
    n Int64
    s Sub1?
    b b.Other
    example default
        v1 = null
    example num
        n = 5

union_closed W
    w1
    w Boolean

union W2 extends W
    extra Int32

struct Holder
    u U = v1
    ts Timestamp("%Y-%m-%d")?
    byt Bytes?
    l List(List(Int32))?
    example default
        u = num

route get(Holder, U, Void)
    "A route. See :route:`put:2`."
    attrs
        auth = "app"

route put:2(Sub2, Void, U) deprecated by get
    attrs
        beta = true
''',
    'b.stone': '''namespace b

struct Other
    q UInt32
    example default
        q = 7

annotation Dep = Deprecated()
annotation Om = Omitted("internal")

struct Patched
    p String
        @Om

patch struct Patched
    r String?
        @Dep
''',
    'stone_cfg.stone': '''namespace stone_cfg

struct Route
    auth String = "user"
    beta Boolean = false
''',
}

REPLACEMENTS = ['struct', 'union', 'union_closed', 'route', 'alias', 'namespace', 'import', 'extends', 'example',
                'attrs', 'deprecated', 'by', 'patch', 'annotation', 'annotation_type', 'Void', 'String', 'Int32',
                'List', 'Map', 'null', 'true', '3', '-1', '2.5', '"a"', 'x', 'Base', 'U', 'b.Other', '(', ')', ',',
                '=', '?', ':', '@', '.', '*', '{', '#', '"', "'", '\\', 'é', '0x10', '1e400', '']

_TOK = re.compile(r'"(?:[^"\\\n]|\\.)*"|[A-Za-z_][A-Za-z0-9_]*|-?\d+(?:\.\d+)?|\n[ ]*|[ ]+|.', re.S)


def tokens(text):
    return _TOK.findall(text)


def edit(rng, toks):
    toks = list(toks)
    if not toks:
        return toks
    k = rng.randrange(9)
    i = rng.randrange(len(toks))
    if k == 0:
        del toks[i]
    elif k == 1:
        toks.insert(i, toks[i])
    elif k == 2 and len(toks) > 1:
        j = rng.randrange(len(toks))
        toks[i], toks[j] = toks[j], toks[i]
    elif k == 3:
        toks[i] = rng.choice(REPLACEMENTS)
    elif k == 4:
        # change the kind of a literal
        lits = [n for n, t in enumerate(toks) if re.match(r'^(-?\d|"|true$|false$|null$)', t)]
        if lits:
            toks[rng.choice(lits)] = rng.choice(['null', 'true', '3', '-1', '2.5', '"s"', '[]', '{}', 'abc', '1e400'])
    elif k == 5:
        # shift the indentation of one line
        nls = [n for n, t in enumerate(toks) if t.startswith('\n')]
        if nls:
            n = rng.choice(nls)
            toks[n] = '\n' + ' ' * rng.choice([0, 2, 3, 4, 6, 8, 12])
    elif k == 6:
        toks = toks[:i]
    elif k == 7:
        toks.insert(i, rng.choice(REPLACEMENTS))
    else:
        j = rng.randrange(len(toks))
        lo, hi = min(i, j), max(i, j)
        toks = toks[:lo] + toks[hi:]
    return toks


def gen_specs(rng):
    """[(path, text)]: the base specs with 0-3 token-level edits in one of them; sometimes a splice"""
    files = dict(BASE)
    r = rng.random()
    if r < 0.08:
        return sorted(files.items())
    name = rng.choice(['a.stone', 'a.stone', 'a.stone', 'b.stone', 'stone_cfg.stone'])
    toks = tokens(files[name])
    for _ in range(rng.choice([1, 1, 1, 2, 3])):
        toks = edit(rng, toks)
    files[name] = ''.join(toks)
    if rng.random() < 0.05:
        files['c.stone'] = files['b.stone'][:rng.randrange(len(files['b.stone']) + 1)] + files['a.stone'][rng.randrange(len(files['a.stone']) + 1):]
    if rng.random() < 0.1:
        del files['stone_cfg.stone']
    return sorted(files.items())


def build_specs(pairs):
    return [tuple(p) for p in pairs]


# ---------------------------------------------------------------- systematic single edits (deterministic, exhaustive over positions)

def single_edits():
    """every single-token edit of the base specs from a small op set, in a fixed order: delete, duplicate,
    replace by an identifier, misspell an identifier, change the kind of a literal, shift indentation"""
    out = []
    for name in sorted(BASE):
        toks = tokens(BASE[name])
        for i, t in enumerate(toks):
            if t.strip(' ') == '' and not t.startswith('\n'):
                continue
            cands = []
            cands.append(toks[:i] + toks[i + 1:])
            cands.append(toks[:i] + [t, t] + toks[i + 1:])
            cands.append(toks[:i] + ['x'] + toks[i + 1:])
            if re.match(r'^[A-Za-z_]', t) and len(t) > 1:
                cands.append(toks[:i] + [t[:-1]] + toks[i + 1:])
            if re.match(r'^(-?\d|"|true$|false$|null$)', t):
                for lit in ('null', '"s"', '2.5', 'abc'):
                    cands.append(toks[:i] + [lit] + toks[i + 1:])
            if t.startswith('\n'):
                cands.append(toks[:i] + [t + '    '] + toks[i + 1:])
                if len(t) >= 5:
                    cands.append(toks[:i] + [t[:-4]] + toks[i + 1:])
            for c in cands:
                out.append((name, ''.join(c)))
    return out


_SINGLE = []
_NEXT = [0]


FIXED = {'quick': 2000, 'thorough': 30000}     # multi-edit specs drawn from a fixed stream (same on every run)
SEEDED = {'quick': 200, 'thorough': 1000}      # multi-edit specs drawn from the run's seed (VERIF_SEED)


def total_samples(tier):
    return len(single_edits()) + FIXED[tier] + SEEDED[tier]


def gen_specs_systematic(rng):
    """the bound of the stand-in, in order: every systematic single edit; then FIXED multi-edit specs from a
    fixed pseudo-random stream (identical on every run, so their outcome on the unchanged tree is known);
    then SEEDED ones from the run's own seed"""
    import os
    import random
    if not _SINGLE:
        _SINGLE.extend(single_edits())
    tier = os.environ.get('PYVC_TIER', 'quick')
    k = _NEXT[0]
    _NEXT[0] += 1
    if k < len(_SINGLE):
        name, text = _SINGLE[k]
        files = dict(BASE)
        files[name] = text
        return sorted(files.items())
    if k < len(_SINGLE) + FIXED.get(tier, 2000):
        return gen_specs(random.Random(7919 * (k - len(_SINGLE)) + 13))
    return gen_specs(rng)
