"""SpecPy for the command-line selection logic (C19): ordinary boolean
semantics of route-attribute filter expressions."""
from pyvc.contract import spec, Ret, Raise

import stone.cli_helpers as ch


def attr_or_null(route, name):
    """the value of a route attribute; an absent attribute reads as null"""
    if name in route.attrs:
        return route.attrs[name]
    return None


def is_literal(v):
    """what the filter grammar can denote: boolean, float, integer, null, string"""
    return v is None or isinstance(v, (bool, int, float, str))


def route_ok(route):
    return isinstance(route.attrs, dict)


@spec(recursive=True, returns='bool')
def wf_expr(e):
    if isinstance(e, ch.FilterExprPredicate):
        return (e.op == '=' or e.op == '!=') and isinstance(e.op, str) and isinstance(e.lhs, str) and is_literal(e.rhs)
    if isinstance(e, ch.FilterExprConjunction):
        return ((e.conj == 'and' or e.conj == 'or') and isinstance(e.conj, str)
                and isinstance(e.lhs, (ch.FilterExprPredicate, ch.FilterExprConjunction)) and wf_expr(e.lhs)
                and isinstance(e.rhs, (ch.FilterExprPredicate, ch.FilterExprConjunction)) and wf_expr(e.rhs))
    return False


@spec(recursive=True, returns='val')
def expr_value(e, route):
    """`=` and `!=` on typed literals, `and` / `or` as ordinary connectives"""
    if isinstance(e, ch.FilterExprPredicate):
        if e.op == '=':
            return attr_or_null(route, e.lhs) == e.rhs
        return attr_or_null(route, e.lhs) != e.rhs
    if e.conj == 'and':
        return expr_value(e.lhs, route) and expr_value(e.rhs, route)
    return expr_value(e.lhs, route) or expr_value(e.rhs, route)
