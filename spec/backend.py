"""SpecPy for stone/backend.py (C18): containment of output paths."""
import os

from pyvc.contract import spec


def lib_escapes(rel):
    """the test the property's wording suggests on a path relative to the root: it is the parent, starts
    with a parent segment, or is absolute"""
    return rel == os.pardir or rel.startswith(os.pardir + os.sep) or os.path.isabs(rel)


def _inside_facts(root, path, r):
    """axiom PATH (library): os.path.relpath of the two absolute paths decides containment.  Validated
    natively on enumerated paths by the bounded comparison (natively `inside` is the independent
    component-wise definition below, not this formula)."""
    return r == (not lib_escapes(os.path.relpath(os.path.abspath(path), os.path.abspath(root))))


@spec(opaque=True, returns='bool', facts=_inside_facts)
def inside(root, path):
    """C18: "the file lands inside the output folder": after resolving `.` and `..` segments against the
    current directory, the components of `path` extend the components of `root` (independent of
    os.path.relpath / abspath: own normalisation)"""
    def comps(p):
        if not p.startswith('/'):
            p = os.getcwd() + '/' + p
        out = []
        for c in p.split('/'):
            if c in ('', '.'):
                continue
            if c == '..':
                if out:
                    out.pop()
                continue
            out.append(c)
        return out
    r, q = comps(root), comps(path)
    return q[:len(r)] == r


def manifest_name(root, path):
    """the name a manifest run reports: the path relative to the root, with forward slashes"""
    return os.path.relpath(os.path.abspath(path), os.path.abspath(root)).replace(os.sep, '/')


@spec(opaque=True, returns='val', kind='str')
def rendered(output, positional, named):
    """the text of the output buffer (opaque)"""
    return ''.join(output).format(*positional, **named)


def encodable(s):
    """the text has a UTF-8 encoding (no lone surrogates)"""
    try:
        s.encode('utf-8')
        return True
    except (UnicodeEncodeError, AttributeError):
        return False


# ---------------------------------------------------------------- file-system effects (ghost)

_NATIVE_EFFECTS = []


def fs_effects():
    """the file-system effects of the call under check, in order: ('makedirs', path), ('copy', dst),
    ('write', path).  Symbolically: the ghost trace of the path (the library calls are recorded, not
    performed).  Natively: what the harness recorded while the real function ran with the effectful library
    calls intercepted (spec/backend.py: intercept)."""
    return list(_NATIVE_EFFECTS)


class intercept:
    """native harness: record os.makedirs / shutil.copy / open-for-writing instead of performing them"""

    def __init__(self, existing_dirs=(), record=True):
        self.existing = set(existing_dirs)
        self.record = record          # False: only the state queries (exists / isdir) answer from `existing`

    def __enter__(self):
        import builtins
        import shutil
        if not self.record:
            self.saved = (os.makedirs, shutil.copy, builtins.open, os.path.exists, os.path.isdir)
            me = self
            os.path.exists = lambda p: os.path.abspath(p) in me.existing
            os.path.isdir = lambda p: os.path.abspath(p) in me.existing
            return self
        del _NATIVE_EFFECTS[:]
        self.saved = (os.makedirs, shutil.copy, builtins.open, os.path.exists, os.path.isdir)
        me = self

        def makedirs(p, *a, **k):
            _NATIVE_EFFECTS.append(('makedirs', p))

        def copy(src, dst, *a, **k):
            _NATIVE_EFFECTS.append(('copy', dst))
            return dst

        class _Sink:
            def __init__(self, p):
                self.p = p

            def __enter__(self):
                return self

            def __exit__(self, *a):
                return False

            def write(self, data):
                _NATIVE_EFFECTS.append(('write', self.p))

        def open_(p, mode='r', *a, **k):
            if isinstance(p, str) and ('w' in mode or 'a' in mode or 'x' in mode):
                _NATIVE_EFFECTS.append(('open', p))
                return _Sink(p)
            return me.saved[2](p, mode, *a, **k)

        os.makedirs, shutil.copy, builtins.open = makedirs, copy, open_
        os.path.exists = lambda p: os.path.abspath(p) in me.existing
        os.path.isdir = lambda p: os.path.abspath(p) in me.existing
        return self

    def __exit__(self, *a):
        import builtins
        import shutil
        os.makedirs, shutil.copy, builtins.open, os.path.exists, os.path.isdir = self.saved
        return False
