#!/bin/bash
# Regression of the machinery itself: every seeded change under seeded/ is applied to a scratch worktree of
# /repo (never to /repo), the check of its property is run against that worktree (STONE_REPO), and the exit
# status is expected to be 1.  Evidence and replays go to scratch directories.  Usage: tools_replay_seeds.sh [seed-id ...]
cd "$(dirname "$0")"
export VERIF_EVIDENCE_DIR=/tmp/verif_seedreplay_ev VERIF_REPLAY_DIR=/tmp/verif_seedreplay_rp
WT=/tmp/verif_seedreplay_wt
SEEDS=${@:-$(ls seeded)}
rc=0
for S in $SEEDS; do
  P=$(python3 -c "import json; print(json.load(open('seeded/$S/meta.json')).get('property') or '$S'.split('-')[0])")
  git -C /repo worktree remove --force $WT 2>/dev/null
  git -C /repo worktree add --detach $WT HEAD -q || { echo "$S: cannot create worktree"; rc=1; continue; }
  if ! git -C $WT apply "$PWD/seeded/$S/patch.diff" 2>/dev/null; then
    echo "$S ($P): patch does not apply to the current tree (the code it changed was since repaired)"; continue
  fi
  STONE_REPO=$WT ./check $P > /tmp/verif_seedreplay_out.txt 2>&1; r=$?
  echo "$S ($P): exit $r $(grep -c '^VIOLATION' /tmp/verif_seedreplay_out.txt) violation line(s)"
  [ $r -ne 1 ] && rc=1
done
git -C /repo worktree remove --force $WT 2>/dev/null
rm -rf /tmp/verif_seedreplay_ev /tmp/verif_seedreplay_rp /tmp/verif_seedreplay_out.txt
exit $rc
