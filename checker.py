#!/usr/bin/env python3
"""Entry point of the /verif checks.

    ./check <PROPERTY-ID> [--tier quick|thorough] [--replay PATH]

Exit codes: 0 property held on everything explored; 1 violation (a
``VIOLATION property=<id> replay=<path>`` line is printed); 2 undecided
(solver unknown and no failing input found -- never a VIOLATION line);
3 checker fault (engine crash, zero obligations, canary not refuted).
"""
import argparse
import hashlib
import importlib
import json
import multiprocessing
import os
import subprocess
import sys
import tempfile
import time
import traceback

HERE = os.path.dirname(os.path.abspath(__file__))
REPO = os.environ.get('STONE_REPO', '/repo')
NATIVE_PY = os.environ.get('VERIF_NATIVE_PYTHON', '/venv/bin/python')
sys.path.insert(0, HERE)
sys.path.insert(0, REPO)

CONTRACT_MODULES = ['contracts.validators', 'contracts.ir_types', 'contracts.runtime_base', 'contracts.serializers',
                    'contracts.cli', 'contracts.generator', 'contracts.entrypoints', 'contracts.backend', 'contracts.frontend', 'contracts.whitelist', 'contracts.normalize', 'contracts.layout', 'contracts.evolve', 'contracts.determinism', 'contracts.faithful', 'contracts.rules',
                    'contracts.canary', 'lemmas.c10', 'lemmas.c04']


def load_contracts():
    from pyvc import contract as CT
    for m in CONTRACT_MODULES:
        importlib.import_module(m)
    return CT


def load_known():
    path = os.path.join(HERE, 'known_findings.json')
    if not os.path.exists(path):
        return []
    return json.load(open(path))


# ----------------------------------------------------------------------------
# worker: verify one contract in its own process (own z3 context)


_tree_hash = {}


def tree_hash(runtime_only=False):
    """sha256 over every source the verdict of a function can depend on: the
    python sources of the tree under verification and the verifier itself
    (engine, contracts, specifications, lemmas, known findings)"""
    fam = 'runtime' if runtime_only else 'all'
    if fam in _tree_hash:
        return _tree_hash[fam]
    h = hashlib.sha256()
    # the runtime modules (python_rsrc) import nothing else of stone but backends/helpers.py: the
    # verdict of a function defined there cannot depend on the compiler, the CLI or the generators
    repo_roots = ([os.path.join(REPO, 'stone', 'backends', 'python_rsrc'), os.path.join(REPO, 'stone', 'backends', 'helpers.py')]
                  if runtime_only else [os.path.join(REPO, 'stone')])
    roots = repo_roots + [os.path.join(HERE, 'pyvc'), os.path.join(HERE, 'contracts'),
                          os.path.join(HERE, 'spec'), os.path.join(HERE, 'lemmas')]
    for root in roots:
        if os.path.isfile(root):
            h.update(root.encode())
            h.update(open(root, 'rb').read())
            continue
        for dp, dns, fns in sorted(os.walk(root)):
            dns.sort()
            if '__pycache__' in dp:
                continue
            for fn in sorted(fns):
                if fn.endswith(('.py', '.jinja')):
                    p = os.path.join(dp, fn)
                    h.update(p.encode())
                    h.update(open(p, 'rb').read())
    for extra in ('known_findings.json', 'checker.py'):
        h.update(open(os.path.join(HERE, extra), 'rb').read())
    _tree_hash[fam] = h.hexdigest()
    return _tree_hash[fam]


def cached_worker(job):
    """Incremental verification: the report of a function is reused when
    nothing it can depend on has changed (same sources of the tree, same
    verifier, same tier and seed); any edit under $STONE_REPO/stone or /verif
    invalidates every entry.  Several properties share the same carrier functions,
    so a run over all properties proves each function once."""
    target, tier, seed, known = job[:4]
    restrict = job[4] if len(job) > 4 else None
    if os.environ.get('VERIF_NO_CACHE'):
        return worker(job)
    cdir = os.path.join(HERE, '.cache')
    os.makedirs(cdir, exist_ok=True)
    runtime_only = target.startswith('stone.backends.python_rsrc.') or target.startswith('lemma:C04.')
    key = hashlib.sha256(('%s|%s|%s|%s' % (tree_hash(runtime_only), target, tier, restrict)).encode()).hexdigest()
    path = os.path.join(cdir, key + '.json')
    if os.path.exists(path):
        try:
            out = json.load(open(path))
            out['cached'] = True
            return out
        except Exception:
            pass
    out = worker(job)
    if not out.get('crash'):
        tmp = path + '.%d.tmp' % os.getpid()
        json.dump(out, open(tmp, 'w'))
        os.replace(tmp, path)
        # keep the cache small: drop entries of other tree states
        try:
            entries = sorted((os.path.getmtime(os.path.join(cdir, f)), f) for f in os.listdir(cdir) if f.endswith('.json'))
            for _, f in entries[:-400]:
                os.remove(os.path.join(cdir, f))
        except OSError:
            pass
    return out


def split_of(CT, target):
    """(param name, number of alternatives) when the contract's first OneOf parameter has several kinds"""
    if target.startswith('lemma:'):
        return None
    con = CT.REGISTRY[target]
    for name, kind in con.params.items():
        if isinstance(kind, CT.OneOf) and len(kind.kinds) >= 3:
            return (name, list(range(len(kind.kinds))))
    levels = con.opts.get('split')
    if levels:
        # heavy functions without a OneOf parameter: the first `levels` branch decisions of every path are
        # bucketed (first feasible alternative / the others); each combination is a separate process
        import itertools
        return ('#choices', [tuple(c) for c in itertools.product((0, 1), repeat=levels)])
    return None


def merge_reports(target, parts):
    """reports of the alternatives of one function -> one report"""
    out = dict(parts[0][1])
    out['obligations'] = []
    out['paths'] = 0
    out['seconds'] = 0.0
    out['solver_seconds'] = 0.0
    inl, ass = set(), set()
    out['unsupported'] = None
    out.pop('crash', None)
    cached = True
    seen = set()
    for k, r in parts:
        tag = ('alt%d' % k) if isinstance(k, int) else ('part' + ''.join(str(x) for x in k))
        if r.get('crash'):
            out['crash'] = '%s: %s' % (tag, r['crash'])
        pathnames = set()
        for o in r['obligations']:
            o = dict(o)
            # a path with fewer branch decisions than split levels is explored by several parts: keep one copy
            ident = (o['name'].split(':', 2)[-1] if '#path' in o['name'] else o['name'], tuple(o.get('path') or ()))
            if not isinstance(k, int):
                if ident in seen:
                    continue
                seen.add(ident)
            pathnames.add(o['name'].split('#')[1].split(':')[0] if '#' in o['name'] else '')
            o['name'] = o['name'].replace('#path', '#%s.path' % tag, 1)
            out['obligations'].append(o)
        out['paths'] += (r.get('paths') or 0) if isinstance(k, int) else len(pathnames)
        out['seconds'] = max(out['seconds'], r.get('seconds') or 0.0)
        out['solver_seconds'] += r.get('solver_seconds') or 0.0
        inl.update(r.get('inlined') or [])
        ass.update(r.get('assumptions') or [])
        if r.get('unsupported') and not out['unsupported']:
            out['unsupported'] = '%s: %s' % (tag, r['unsupported'])
        cached = cached and bool(r.get('cached'))
    out['inlined'] = sorted(inl)
    out['assumptions'] = sorted(ass)
    out['cached'] = cached
    out['split'] = len(parts)
    out['target'] = target
    return out


def worker(job):
    target, tier, seed, known = job[:4]
    restrict = job[4] if len(job) > 4 else None
    t0 = time.time()
    try:
        CT = load_contracts()
        from pyvc import verify
        E = verify.setup_engine(seed)
        V = verify.Verifier(tier, seed)
        if target.startswith('lemma:'):
            lem = CT.LEMMAS[target[6:]]
            lem._known_cases = [k for k in known if k['target'] == target and k.get('status') == 'known' and k.get('case')]
            rep = verify.verify_lemma(V, E, lem)
        else:
            con = CT.REGISTRY[target]
            con._known_cases = [k for k in known if k['target'] == target and k.get('status') == 'known' and k.get('case')]
            rep = V.verify(E, con, restrict=dict([restrict]) if restrict else None)
        out = rep.to_json()
        out['wall'] = time.time() - t0
        return out
    except Exception as e:
        return {'target': target, 'crash': '%s: %s' % (type(e).__name__, e), 'trace': traceback.format_exc(),
                'obligations': [], 'paths': 0, 'unsupported': None, 'wall': time.time() - t0}


def native(req, timeout=600):
    """Run pyvc.native under the suite's interpreter."""
    fd, path = tempfile.mkstemp(suffix='.json', prefix='pyvc_req_')
    try:
        with os.fdopen(fd, 'w') as f:
            json.dump(req, f)
        env = dict(os.environ)
        env['PYTHONPATH'] = HERE + os.pathsep + REPO
        env['PYTHONHASHSEED'] = '0'
        env['PYVC_TIER'] = req.get('tier', 'quick')
        pr = subprocess.run([NATIVE_PY, '-m', 'pyvc.native', path], capture_output=True, text=True,
                            env=env, cwd=HERE, timeout=timeout)
        if pr.returncode != 0:
            return {'native_error': pr.stderr[-2000:]}
        return json.loads(pr.stdout)
    finally:
        os.unlink(path)


# ----------------------------------------------------------------------------


def main():
    ap = argparse.ArgumentParser()
    ap.add_argument('prop')
    ap.add_argument('--tier', default=os.environ.get('VERIF_TIER', 'quick'))
    ap.add_argument('--replay')
    ap.add_argument('--jobs', type=int, default=min(8, os.cpu_count() or 4))
    args = ap.parse_args()
    seed = int(os.environ.get('VERIF_SEED', '0'))
    prop = args.prop
    t0 = time.time()
    CT = load_contracts()

    if args.replay:
        return do_replay(CT, prop, args.replay)

    known = load_known()
    targets = [t for t in CT.ORDER if prop in CT.REGISTRY[t].opts.get('properties', [])
               and not CT.REGISTRY[t].opts.get('abstract') and not CT.REGISTRY[t].opts.get('trusted')]
    targets += ['lemma:' + n for n in CT.LEMMA_ORDER if prop in CT.LEMMAS[n].opts.get('properties', [])]
    canaries = [t for t in CT.ORDER if CT.REGISTRY[t].opts.get('canary')]
    if not targets:
        print('checker fault: no contracts registered for %s' % prop)
        return 3
    # heavy functions first (better packing on the process pool)
    heavy = ('encode_sub', 'encode_union', 'encode_struct', 'decode_', 'json_compat')
    order = sorted(targets + canaries, key=lambda t: 0 if any(h in t for h in heavy) else 1)
    bounded_only = [t for t in order if not t.startswith('lemma:') and CT.REGISTRY[t].opts.get('bounded')]
    order = [t for t in order if t not in bounded_only]
    # a function whose contract ranges over several parameter kinds (OneOf) is proved kind by kind in
    # separate processes; the parts are merged into one report
    jobs = []
    for t in order:
        sp = split_of(CT, t)
        if sp is None:
            jobs.append((t, args.tier, seed, known))
        else:
            jobs.extend((t, args.tier, seed, known, (sp[0], k)) for k in sp[1])
    with multiprocessing.Pool(min(args.jobs, len(jobs))) as pool:
        results = pool.map(cached_worker, jobs, chunksize=1)
    by_target = {}
    parts = {}
    for job, r in zip(jobs, results):
        if len(job) > 4:
            parts.setdefault(job[0], []).append((job[4][1], r))
        else:
            by_target[job[0]] = r
    for t, ps in parts.items():
        by_target[t] = merge_reports(t, sorted(ps, key=lambda x: (0, x[0]) if isinstance(x[0], int) else (1,) + tuple(x[0])))
    for t in bounded_only:
        # functions outside the VC generator's reach in this revision: bounded stand-in only
        by_target[t] = {'target': t, 'obligations': [], 'paths': 0, 'unsupported': None, 'bounded_only': True}

    fault = []
    # canaries must be refuted
    for t in canaries:
        r = by_target[t]
        if r.get('crash') or not any(o['status'] == 'failed' for o in r['obligations']):
            fault.append('canary %s was not refuted (%s)' % (t, r.get('crash') or r.get('unsupported')))

    violations = []
    undecided = []
    degraded = []
    known_reported = []
    n_obl = n_dis = 0
    solver_s = 0.0
    funcs = []
    samples = []
    bounded_checks = []
    bounded_only_funcs = []
    pending_hits = []
    replay_dir = os.environ.get('VERIF_REPLAY_DIR', os.path.join(HERE, 'replays'))
    os.makedirs(replay_dir, exist_ok=True)
    n_search = {'quick': 400, 'thorough': 3000}[args.tier]

    # bounded oracle comparisons run concurrently (one interpreter process per function)
    def _search(t):
        r = by_target[t]
        if r.get('crash'):
            return None
        n_here = n_search * 4 if r.get('bounded_only') else n_search
        if not t.startswith('lemma:') and CT.REGISTRY[t].opts.get('samples'):
            n_here = CT.REGISTRY[t].opts['samples'][args.tier]
        return native({'mode': 'search', 'contract_modules': CONTRACT_MODULES, 'target': t,
                       'n': n_here, 'seed': seed, 'tier': args.tier,
                       'known_cases': [k['case'] for k in known if k.get('status') == 'known' and k['target'] == t
                                       and k['property'] == prop and k.get('case')]}, timeout=3600)
    import concurrent.futures
    with concurrent.futures.ThreadPoolExecutor(max_workers=max(1, args.jobs)) as ex:
        search_results = dict(zip(targets, ex.map(_search, targets)))

    for t in targets:
        r = by_target[t]
        if r.get('crash'):
            fault.append('engine crash on %s: %s' % (t, r['crash']))
            continue
        funcs.append({'function': t, 'file': r.get('file'), 'lines': r.get('lines'), 'sha256': r.get('sha256'),
                      'paths': r['paths'], 'obligations': len(r['obligations']),
                      'discharged': sum(1 for o in r['obligations'] if o['status'] == 'discharged'),
                      'seconds': r.get('seconds'), 'solver_seconds': r.get('solver_seconds'),
                      'max_obligation_effort': max([o.get('effort') or 0 for o in r['obligations']] or [0]),
                      'inlined': r.get('inlined'), 'assumptions': r.get('assumptions'), 'reused_from_cache': bool(r.get('cached')),
                      'unsupported': r.get('unsupported'), 'bounded_only': bool(r.get('bounded_only'))})
        solver_s += r.get('solver_seconds') or 0.0
        n_obl += len(r['obligations'])
        n_dis += sum(1 for o in r['obligations'] if o['status'] == 'discharged')
        for o in r['obligations'][:2]:
            if len(samples) < 8:
                samples.append({'obligation': o['name'], 'status': o['status'], 'path': o['path'][:12]})
        bad = [o for o in r['obligations'] if o['status'] != 'discharged']
        # bounded oracle comparison (never counted as proved): every function, every run
        n_here = n_search * 4 if r.get('bounded_only') else n_search
        if not t.startswith('lemma:') and CT.REGISTRY[t].opts.get('samples'):
            n_here = CT.REGISTRY[t].opts['samples'][args.tier]
        sr = search_results[t]
        if r.get('bounded_only'):
            bounded_only_funcs.append(t)
            src = sr.get('source') or {}
            funcs[-1].update({'file': src.get('file'), 'lines': src.get('lines'), 'sha256': src.get('sha256')})
            if src.get('extraction_drops'):
                funcs[-1]['extraction_drops'] = src['extraction_drops']
        bounded_checks.append({'name': ('BOUNDED STAND-IN (not proved): ' if r.get('bounded_only') else '') +
                               'native oracle comparison ' + t, 'bound': '%d sampled inputs' % n_here,
                               'cases': sr.get('accepted'), 'distinct': sr.get('distinct'),
                               'inputs_under_known_findings': sr.get('known_hits', 0),
                               'passed': sr.get('mismatch') is None and 'native_error' not in sr})
        if 'corpus_error' in sr:
            # the corpus specs are valid Stone; on the unchanged tree they compile and import on every run.
            # A tree whose frontend / python_types backend cannot build them has broken every property of the
            # generated classes for these types: reported once, with the specs as the failing input.
            if not any(v.get('corpus') for v in violations):
                path = os.path.join(replay_dir, '%s_corpus_build.json' % prop)
                try:
                    sys.path.insert(0, HERE)
                    import spec.corpus as _corpus
                    specs = _corpus.SPECS
                except Exception:
                    specs = None
                json.dump({'property': prop, 'obligation': 'the corpus of valid specs compiles with the frontend and the '
                           'python_types backend of this tree and the generated modules import (precondition of every '
                           'bounded comparison; holds on the unchanged tree)', 'target': t, 'tree': {'repo': REPO},
                           'found_by': 'corpus-build', 'input': {'specs': specs}, 'observed': sr['corpus_error']},
                          open(path, 'w'), indent=1, default=str)
                violations.append({'replay': path, 'suffix': '', 'corpus': True})
            bounded_checks[-1]['passed'] = False
            continue
        if 'native_error' in sr:
            fault.append('native search failed for %s: %s' % (t, sr['native_error'][-400:]))
        elif not sr.get('accepted') and not t.startswith('lemma:'):
            # vacuity guard: the precondition of the contract was never satisfied by a generated input
            fault.append('no generated input satisfied the precondition of %s (generator errors: %s)'
                         % (t, sr.get('gen_errors')))
        search_hit = sr.get('mismatch')
        if search_hit is not None and 'oracle_error' in search_hit:
            fault.append('oracle error for %s: %s' % (t, search_hit['oracle_error']))
            search_hit = None
        if search_hit is not None and is_known(known, t, search_hit, prop):
            search_hit = None

        if r.get('unsupported'):
            degraded.append({'function': t, 'reason': r['unsupported']})
            if search_hit is not None:
                violations.append(make_violation(prop, t, 'degraded:' + r['unsupported'], None, search_hit,
                                                 'bounded-search', replay_dir))
            else:
                # a function the VC generator cannot take on this tree is not proved: the property is
                # undecided for it (exit 2), whatever the bounded comparison sampled
                undecided.append({'obligation': t + '#not-under-proof', 'detail': 'degraded: ' + r['unsupported']})
            continue
        if bad and search_hit is None and not r.get('unsupported'):
            # an obligation is open and the first sample found nothing: look harder for a concrete input
            # (ten times the samples, another stream) before calling the function undecided
            sr2 = native({'mode': 'search', 'contract_modules': CONTRACT_MODULES, 'target': t, 'n': n_here * 10,
                          'seed': seed + 7919, 'tier': args.tier,
                          'known_cases': [k['case'] for k in known if k.get('status') == 'known' and k['target'] == t
                                          and k['property'] == prop and k.get('case')]}, timeout=3600)
            h2 = sr2.get('mismatch')
            if h2 is not None and 'oracle_error' not in h2 and not is_known(known, t, h2, prop):
                search_hit = h2
            bounded_checks.append({'name': 'deepened native search after an open obligation: ' + t,
                                   'bound': '%d sampled inputs' % (n_here * 10), 'cases': sr2.get('accepted'),
                                   'distinct': sr2.get('distinct'), 'passed': h2 is None})
        for o in bad:
            hit = None
            found_by = 'none'
            if o.get('model') and all(v.get('k') != 'undecodable' for v in o['model'].values()):
                rr = native({'mode': 'replay', 'contract_modules': CONTRACT_MODULES, 'target': t,
                             'args': o['model']})
                if rr.get('requires') and rr.get('agree') is False:
                    hit, found_by = rr, 'model'
            if hit is None and search_hit is not None:
                hit, found_by = search_hit, 'bounded-search'
            if hit is not None and is_known(known, t, hit, prop):
                continue
            if o['status'] == 'unknown' and hit is None:
                undecided.append({'obligation': o['name'], 'detail': o['detail']})
                continue
            violations.append(make_violation(prop, t, o['name'], o, hit, found_by, replay_dir))
        if not bad and search_hit is not None:
            pending_hits.append((t, search_hit))

    # native mismatches in functions whose own obligations all discharged: with
    # modular proofs this is what a broken *callee* looks like from its callers
    # (they are proved against the callee's contract, executed against its body).
    # If some function failed its obligations the violation is reported there;
    # otherwise the concrete failing input is itself the violation (and shows
    # that the proof missed it: recorded as proof_missed in evidence).
    proof_missed = []
    if pending_hits and not violations:
        for t, hit in pending_hits:
            if by_target[t].get('bounded_only'):
                violations.append(make_violation(prop, t, 'bounded stand-in: native comparison of %s with its '
                                                 'reference (function not under proof)' % t, None, hit,
                                                 'bounded-search', replay_dir))
                continue
            proof_missed.append(t)
            violations.append(make_violation(prop, t, 'native oracle comparison of %s (all its obligations '
                                             'discharged: proof missed this input)' % t, None, hit,
                                             'bounded-search', replay_dir))

    # known findings: replay each witness
    for k in known:
        if k['property'] != prop:
            continue
        rr = native({'mode': 'replay', 'contract_modules': CONTRACT_MODULES, 'target': k['target'],
                     'args': k['witness']})
        still = rr.get('requires') and rr.get('agree') is False
        if k.get('status') == 'known':
            if still:
                print('KNOWN-FINDING: property=%s %s' % (prop, k['what']))
                known_reported.append(k['id'])
        else:
            if still:
                path = os.path.join(replay_dir, '%s_regression_%s.json' % (prop, k['id']))
                json.dump({'property': prop, 'obligation': 'regression of fixed finding ' + k['id'],
                           'target': k['target'], 'input': k['witness'], 'native': rr,
                           'found_by': 'fixed-witness'}, open(path, 'w'), indent=1)
                violations.append({'replay': path, 'suffix': ''})

    wall = time.time() - t0
    level = 'proof'
    coverage = {
        'obligations': n_obl, 'discharged': n_dis,
        'checker_cmd': './check %s --tier %s' % (prop, args.tier),
        'trusted_base': trusted_base(funcs),
        'functions_under_contract': funcs,
        'by_backend': {'z3-%s' % z3_version(): {'obligations': n_obl, 'solver_seconds': round(solver_s, 3)}},
        'bounded_checks': bounded_checks,
        'degraded': degraded,
        'bounded_only_functions': bounded_only_funcs,
        'proof_missed': proof_missed,
        'undecided': undecided,
        'known_findings_reported': known_reported,
        'canaries_refuted': len(canaries) - sum(1 for f in fault if f.startswith('canary')),
        'samples': samples,
    }
    # the bounded part, quantified (extra keys of the proof-level coverage)
    coverage['evaluations'] = sum(b['cases'] or 0 for b in bounded_checks)
    coverage['distinct_nontrivial'] = sum(b.get('distinct') or 0 for b in bounded_checks)
    coverage['rule'] = ('bounded part only: inputs generated per contract (spec/*_gen.py), kept when they satisfy the '
                        'contract precondition, compared with the SpecPy oracle / independent reference; distinct = different '
                        'argument descriptions')
    if degraded or n_obl == 0:
        level = 'other'
        coverage['explanation'] = ('degraded run: %d function(s) could not be brought under the VC generator '
                                   'on this tree and were only compared with the oracle on sampled inputs: %s'
                                   % (len(degraded), json.dumps(degraded)[:800]))
        coverage['evaluations'] = sum(b['cases'] or 0 for b in bounded_checks) or 1
        coverage['distinct_nontrivial'] = max(2, sum(b.get('distinct') or 0 for b in bounded_checks))
    ev = {'property_id': prop, 'tier': args.tier, 'seed': seed, 'level': level, 'coverage': coverage,
          'assumptions': sorted(set(a for f in funcs for a in (f.get('assumptions') or []))),
          'wall_s': round(wall, 2), 'violations': len(violations)}
    evdir = os.environ.get('VERIF_EVIDENCE_DIR', os.path.join(HERE, 'evidence'))
    os.makedirs(evdir, exist_ok=True)
    json.dump(ev, open(os.path.join(evdir, prop + '.json'), 'w'), indent=1)

    print('%s: %d functions, %d/%d obligations discharged, %d degraded, %d undecided, %.1fs'
          % (prop, len(funcs), n_dis, n_obl, len(degraded), len(undecided), wall))
    if fault:
        for f in fault:
            print('CHECKER-FAULT: ' + f)
        return 3
    if violations:
        for v in violations:
            print('VIOLATION property=%s replay=%s%s' % (prop, v['replay'], v['suffix']))
        return 1
    if undecided:
        for u in undecided:
            print('UNDECIDED: %s (%s)' % (u['obligation'], u['detail']))
        return 2
    return 0


def z3_version():
    try:
        import z3
        return z3.get_version_string()
    except Exception:
        return '?'


def trusted_base(funcs):
    tb = ['PyVC translator (AST -> z3), cross-checked against CPython on sampled inputs',
          'closed-world value universe (DESIGN 2.1)', 'termination is not proved',
          'CPython, z3']
    inl = sorted(set(i for f in funcs for i in (f.get('inlined') or [])))
    tb.append('inlined (not under their own contract): ' + ', '.join(inl))
    return tb


def is_known(known, target, hit, prop):
    """Does a native mismatch fall under a listed known finding?"""
    for k in known:
        if k['property'] != prop or k['target'] != target or k.get('status') != 'known':
            continue
        case = k.get('case')
        if not case:
            continue
        rr = native({'mode': 'case', 'contract_modules': CONTRACT_MODULES, 'target': target,
                     'args': hit['args'], 'case': case})
        if rr.get('case') is True:
            return True
    return False


def make_violation(prop, target, obname, o, hit, found_by, replay_dir):
    h = hashlib.sha1((obname + json.dumps(hit, sort_keys=True, default=str)).encode()).hexdigest()[:10]
    path = os.path.join(replay_dir, '%s_%s.json' % (prop, h))
    doc = {'property': prop, 'obligation': obname, 'target': target,
           'tree': {'repo': REPO},
           'solver': {'backend': 'z3-' + z3_version(), 'result': (o or {}).get('detail'),
                      'seconds': (o or {}).get('seconds'), 'path': (o or {}).get('path'),
                      'model': (o or {}).get('model')},
           'found_by': found_by}
    if hit is not None:
        doc['input'] = hit['args']
        doc['expected'] = hit.get('expected')
        doc['observed'] = hit.get('observed')
    json.dump(doc, open(path, 'w'), indent=1, default=str)
    return {'replay': path, 'suffix': '' if hit is not None else ' no-failing-input-found'}


def do_replay(CT, prop, path):
    doc = json.load(open(path))
    if 'input' not in doc:
        print('replay file names obligation %s; no failing input was found (verifier output inside)' % doc['obligation'])
        print(json.dumps(doc.get('solver'), indent=1)[:3000])
        return 1
    rr = native({'mode': 'replay', 'contract_modules': CONTRACT_MODULES, 'target': doc['target'],
                 'args': doc['input']})
    print(json.dumps(rr, indent=1)[:4000])
    if rr.get('requires') and rr.get('agree') is False:
        print('VIOLATION property=%s replay=%s' % (prop, path))
        return 1
    return 0


if __name__ == '__main__':
    sys.exit(main())
